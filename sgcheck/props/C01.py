"""C01 — Simulations are reproducible (DESIGN.md 3, C01): no kernel decision depends on an address or an unspecified order."""
import os

from .. import cg, ex, lib
from ..cfg import FnView
from ..core import where, EXCLUDED_UNITS
from ..ir import AnalysisBroken, REPO
from .. import ir

EXPLANATION = ('Whole-library call graph (direct calls, class-hierarchy resolution of virtual calls, lambdas, std::function/signal pseudo-nodes; '
               'calls in blocks that end in an abort are ignored).  R1: every traversal (range-for, begin()/top() access) of a container whose '
               'iteration order is a function of addresses -- std::set/map keyed by a raw or smart pointer with the default comparator, '
               'std::unordered_* keyed by a pointer, priority queues ordering pairs that contain a pointer with std::less/greater -- is located, '
               'and its loop body must not reach a function that makes order observable (run-queue insertion, simcall answer, signals, user '
               'callbacks, timers, action heap, LMM system, resource events, activity finish/cancel/suspend/resume, actor kill, INFO+ logging).  '
               'R2: the comparators of the kernel heaps read only the date.  R3: the run queue is only appended, swapped and cleared, simcalls are '
               'handled by one forward loop over actors_that_ran_, the actor list is keyed by pid.  R4: no wall-clock, random or pid source is '
               'called from the kernel/S4U code outside an enumerated list.')

# claimed scope (both tiers): the S4U core the property quantifies over.  Plugins, the DAG loaders, SMPI, tracing and the model checker are
# analysed as callees but their own traversals are reported as notes only.
SCOPE = ('src/kernel/', 'src/s4u/', 'include/simgrid/s4u/', 'include/simgrid/kernel/', 'src/simgrid/', 'src/xbt/', 'include/xbt/')
K = 'simgrid::kernel::'
ORDERED = ('std::set', 'std::multiset', 'std::map', 'std::multimap')
UNORDERED = ('std::unordered_set', 'std::unordered_multiset', 'std::unordered_map', 'std::unordered_multimap',
             'boost::unordered_set', 'boost::unordered_multiset', 'boost::unordered_map', 'boost::unordered_multimap',
             'boost::unordered::unordered_set', 'boost::unordered::unordered_multiset', 'boost::unordered::unordered_map', 'boost::unordered::unordered_multimap',
             'boost::unordered_flat_set', 'boost::unordered_flat_map', 'boost::unordered::unordered_flat_set', 'boost::unordered::unordered_flat_map',
             'boost::unordered_node_set', 'boost::unordered_node_map')
FLAT_ORDERED = ('boost::container::flat_set', 'boost::container::flat_map', 'boost::container::flat_multiset', 'boost::container::flat_multimap',
                'boost::container::set', 'boost::container::map')

SINK_EXACT = {
    K + 'EngineImpl::add_actor_to_run_list', K + 'EngineImpl::add_actor_to_run_list_no_check', K + 'actor::ActorImpl::simcall_answer',
    K + 'timer::Timer::set', K + 'resource::ActionHeap::insert', K + 'resource::ActionHeap::update', K + 'resource::ActionHeap::remove',
    K + 'lmm::System::variable_new', K + 'lmm::System::expand', K + 'lmm::System::constraint_new', K + 'lmm::System::variable_free',
    K + 'actor::ActorImpl::kill', K + 'actor::ActorImpl::exit', K + 'actor::ActorImpl::suspend', K + 'actor::ActorImpl::resume',
    '_xbt_log_event_log',
}
SINK_VIRTUAL = [(K + 'resource::Resource', ('turn_on', 'turn_off', 'apply_event')),
                (K + 'activity::ActivityImpl', ('finish', 'cancel', 'suspend', 'resume'))]
AMBIENT = {'rand', 'random', 'srand', 'srandom', 'drand48', 'lrand48', 'time', 'clock', 'gettimeofday', 'clock_gettime', 'getpid', 'getppid',
           'std::random_device::operator()', 'std::random_device::random_device', 'std::chrono::_V2::system_clock::now',
           'std::chrono::_V2::steady_clock::now', 'xbt_os_time', 'xbt_os_threadtimer_start', 'xbt_os_cputimer_start', 'xbt_os_walltimer_start'}
# wall-clock uses that never feed a simulated decision (frozen, one reason each)
AMBIENT_OK = {
    ('simgrid::kernel::EngineImpl::load_platform', 'xbt_os_time'): 'duration of the parsing, printed by a DEBUG line only',
    ('simgrid::s4u::Engine::run_until', 'xbt_os_time'): 'wall-clock duration of the run, printed by a DEBUG line only',
    ('simgrid::kernel::EngineImpl::initialize', 'getpid'): 'pid of the process, used in the name of the dlopen/privatisation temp files only',
    ('simgrid::kernel::EngineImpl::initialize', 'xbt_os_time'): 'wall-clock time kept for statistics only',
}


def addr_ordered(tstr):
    """why the iteration order of a container type depends on addresses, or None"""
    name, args = cg.parse_template(tstr)
    if not args:
        return None
    if name in ORDERED or name in FLAT_ORDERED:
        key = args[0]
        cmpi = 1 if name.endswith('set') else 2
        cmpt = args[cmpi] if len(args) > cmpi else 'std::less<%s>' % key
        if cg.pointer_like(key) and cmpt.replace(' ', '') in ('std::less<%s>' % key.replace(' ', ''), 'std::less<void>', 'std::less<>',
                                                                 'std::greater<%s>' % key.replace(' ', ''), 'std::greater<void>'):
            return '%s keyed by the pointer type %s with %s: iteration follows addresses' % (name, key, cmpt.split('<')[0])
        if key.startswith(('std::pair<', 'std::tuple<')):
            _, inner = cg.parse_template(key)
            if any(cg.pointer_like(a) for a in inner) and cmpt.startswith(('std::less<', 'std::greater<')):
                return '%s keyed by %s (contains a pointer) with %s: ties are ordered by address' % (name, key, cmpt.split('<')[0])
        return None
    if name in UNORDERED or 'unordered' in name.rsplit('::', 1)[-1] or 'hash_' in name.rsplit('::', 1)[-1]:      # any hashed container, whatever the library
        key = args[0]
        if cg.pointer_like(key):
            return '%s keyed by the pointer type %s: bucket order follows the hash of addresses' % (name, key)
        return None
    if name == 'std::priority_queue' or name.startswith('boost::heap::'):
        elt = args[0]
        rest = ' '.join(args[1:])
        if elt.startswith(('std::pair<', 'std::tuple<')):
            _, inner = cg.parse_template(elt)
            has_ptr = any(cg.pointer_like(a) for a in inner)
            generic = ('std::greater<' in rest or 'std::less<' in rest or (name == 'std::priority_queue' and len(args) < 3))
            if has_ptr and generic:
                return '%s of %s ordered by a generic std::less/greater: equal dates are ordered by address' % (name, elt)
        elif cg.pointer_like(elt) and ('std::greater<' in rest or 'std::less<' in rest or len(args) < 3):
            return '%s of pointers ordered by address' % name
    return None


PROG_FNS = {}
READ_ONLY_ALGOS = ('std::find', 'std::find_if', 'std::find_if_not', 'std::any_of', 'std::all_of', 'std::none_of', 'std::count', 'std::count_if', 'std::for_each',
                   'std::distance', 'std::accumulate', 'std::equal', 'std::min_element', 'std::max_element', 'std::is_sorted', 'std::binary_search', 'std::lower_bound')


def refine_iterator_use(u, c):
    """a queue handed to begin()/end() (free or member) is classified by the algorithm that consumes the iterator: read-only scans and reorderings that
    are a function of the current order or of values (reverse, sort by pid...) keep the class; a sort that looks at addresses (default comparator on
    pointers, or a comparator comparing its pointer parameters) and a shuffle make the order differ from run to run"""
    callee = getattr(u, 'callee', None) or ''
    m = callee.split('<')[0].rsplit('::', 1)[-1]
    if not ((u.kind == 'arg' and m in ('begin', 'end', 'rbegin', 'rend')) or (u.kind == 'call' and u.method in ('begin', 'end', 'rbegin', 'rend'))):
        return c
    fn = u.fn
    target = u.parent
    consumers = []
    for eid2, el in enumerate(fn['elems']):
        for n in ex.walk(el['x']):
            if n.get('k') in ('Call', 'New0') and n is not target:
                for a in n.get('a') or ():
                    if a is target or (isinstance(a, dict) and a.get('k') == 'R' and a.get('r') == u.eid and fn['elems'][u.eid]['x'] is target):
                        consumers.append(((n.get('c') or {}).get('q', '?'), n))
    if not consumers:
        return c
    bad = [(q, n) for q, n in consumers if q.split('<')[0] not in READ_ONLY_ALGOS and not q.split('<')[0].endswith(('operator==', 'operator!=', 'operator-'))]
    for q, n in bad:
        name = q.split('<')[0]
        if name in ('std::shuffle', 'std::random_shuffle'):
            return 'reordered by ' + name
        if name in ('std::sort', 'std::stable_sort', 'std::partial_sort', 'std::nth_element', 'std::make_heap', 'std::sort_heap'):
            # a reordering is reproducible iff its comparator does not look at addresses: a lambda comparing values obtained from the elements
            lam = [a for a in n.get('a') or () for x in ex.walk(a) if x.get('k') == 'Lambda' for a in [x]]
            if not lam or lam[0].get('fn') not in PROG_FNS:
                return 'reordered by %s with the default comparator (addresses)' % name
            lf = PROG_FNS[lam[0]['fn']]
            pnames = set(p_['n'] for p_ in lf['params'])
            for el in lf['elems']:
                for x in ex.walk(el['x']):
                    if x.get('k') == 'Bin' and x.get('op') in ('<', '>', '<=', '>='):
                        ops = x.get('a') or ()
                        if all(o.get('k') == 'Ref' and (o.get('d') or {}).get('n') in pnames and cg.pointer_like(lf.tstr(o.get('t', -1))) for o in ops):
                            return 'reordered by %s comparing addresses' % name
            continue        # value comparator: the same order in every run
        # reverse, rotate, partition, remove_if...: a function of the current order only
    return c


def in_scope(fn, scope):
    f = fn['file']
    if f.startswith(REPO + '/'):
        f = f[len(REPO) + 1:]
    return f.startswith(scope)


SEQ = ('std::vector', 'std::deque', 'std::list', 'std::forward_list', 'boost::circular_buffer')


def rng_type_sites(G, fn, v, pred):
    """range-for loops whose range expression satisfies pred(decl dict) -> why; yields (line, desc, why, body blocks)"""
    for eid, el in enumerate(fn['elems']):
        x = el['x']
        if x.get('k') != 'Decl':
            continue
        for d in x.get('decls', ()):
            nm = d.get('d', {}).get('n', '')
            if not nm.startswith('__range'):
                continue
            why = pred(d)
            if why is None:
                continue
            heads = [b for b in v.blocks if b.get('t') and b['t'].get('k') == 'CXXForRangeStmt' and b['t'].get('l') == el.get('l')]
            if not heads:
                continue
            body = set()
            for h in heads:
                body |= cg.natural_loop(v, h['id'])
            rng = ex.pretty(v.norm(d['init'])) if d.get('init') is not None else '?'
            yield el.get('l'), 'range-for over %s' % rng, why, body


def collect_sites(G, fn, v):
    """address-ordered traversals of one function: (line, description, why, body blocks | 'fn' | None, extra callee keys)"""
    sites = []
    for line, desc, why, body in rng_type_sites(G, fn, v, lambda d: addr_ordered(fn.tstr(d['t']))):
        sites.append((line, desc, why, body, ()))
    consumed = set()
    # (b1) begin() handed to an algorithm / helper together with a functor: the functor is the loop body
    for eid, el in enumerate(fn['elems']):
        for n in ex.walk(el['x']):
            if n.get('k') != 'Call' or not n.get('c'):
                continue
            begins = []
            for a in n.get('a') or ():
                a0 = a
                while a0 is not None:
                    if a0.get('k') == 'R':
                        a0 = fn['elems'][a0['r']]['x']
                    elif a0.get('k') in ('Cast', 'New0') and a0.get('a') and len(a0['a']) == 1:
                        a0 = a0['a'][0]
                    else:
                        break
                if a0 is not None and a0.get('k') == 'Call' and a0.get('c') and a0.get('obj') is not None and \
                        a0['c']['q'].rsplit('::', 1)[-1] in ('begin', 'cbegin', 'rbegin', 'crbegin'):
                    o = a0['obj']
                    if o.get('k') == 'R':
                        o = fn['elems'][o['r']]['x']
                    why = addr_ordered(fn.tstr(o))
                    if why:
                        begins.append((a0, why))
            if not begins:
                continue
            lambdas = [m['fn'] for a in n.get('a') or () for m in ex.walk(a) if m.get('k') == 'Lambda']
            extra = list(lambdas)
            if n['c']['n'] in G.prog.fns:
                extra.append(n['c']['n'])
            for a0, why in begins:
                desc = '%s over %s' % (n['c']['q'], ex.pretty(v.norm(a0['obj'])))
                consumed.add((a0.get('l', el.get('l')), ex.pretty(v.norm(a0['obj']))))
                sites.append((n.get('l', el.get('l')), desc, why, None, tuple(extra)))
    # (b2) ordered access through begin()/top()
    for eid, el in enumerate(fn['elems']):
        for n in ex.walk(el['x']):
            if n.get('k') != 'Call' or n.get('obj') is None or not n.get('c'):
                continue
            m = n['c']['q'].rsplit('::', 1)[-1]
            if m not in ('begin', 'cbegin', 'rbegin', 'crbegin', 'top'):
                continue
            o = n['obj']
            if o.get('k') == 'R':
                o = fn['elems'][o['r']]['x']
            if o.get('k') == 'Ref' and o['d'].get('n', '').startswith('__range'):
                continue     # implicit begin() of a range-for: the loop itself is listed
            why = addr_ordered(fn.tstr(o))
            if why is None:
                continue
            objs = ex.pretty(v.norm(n['obj']))
            if (n.get('l', el.get('l')), objs) in consumed:
                continue
            if any(s_[0] == el.get('l') and s_[1] == 'range-for over %s' % objs for s_ in sites):
                continue     # the begin() of a range-for already listed
            body = enclosing_loop(G, v, eid)
            sites.append((n.get('l', el.get('l')), '%s() on %s' % (m, objs), why, body if body is not None else 'fn', ()))
    # (c) the order escapes into a local sequence container that is traversed later in the same function
    tainted = {}
    for line, desc, why, body, extra in list(sites):
        if not body or body == 'fn':
            continue
        for b in body:
            for eid in v.blocks[b].get('e', []):
                for n in ex.walk(fn['elems'][eid]['x']):
                    if n.get('k') == 'Call' and n.get('obj') is not None and n.get('c') and \
                            n['c']['q'].rsplit('::', 1)[-1] in ('push_back', 'emplace_back', 'push_front', 'emplace_front'):
                        o = n['obj']
                        if o.get('k') == 'Ref' and o['d'].get('dk') == 'local' and cg.parse_template(fn.tstr(o))[0] in SEQ:
                            tainted[o['d']['n']] = (line, desc)

    def tainted_pred(d):
        init = d.get('init')
        while init is not None and init.get('k') == 'Cast' and init.get('a'):
            init = init['a'][0]
        if init is not None and init.get('k') == 'Ref' and init['d'].get('dk') == 'local' and init['d']['n'] in tainted:
            src = tainted[init['d']['n']]
            return 'the sequence %s is filled by the address-ordered %s at line %s' % (init['d']['n'], src[1], src[0])
        return None
    if tainted:
        for line, desc, why, body in rng_type_sites(G, fn, v, tainted_pred):
            sites.append((line, desc, why, body, ()))
    return sites


def enclosing_loop(G, v, eid):
    """blocks of the innermost source loop containing element eid, or None"""
    blk = None
    for b in v.blocks:
        if eid in b.get('e', []):
            blk = b['id']
    if blk is None:
        return None
    best = None
    for h in v.loop_heads():
        body = cg.natural_loop(v, h['id'])
        if blk in body or blk == h['id']:
            if best is None or len(body) < len(best):
                best = body | {h['id']}
    return best


def run(ctx):
    units = [u for u in ctx.all_units() if u not in EXCLUDED_UNITS]
    P = ctx.load([u[len(REPO) + 1:] for u in units])
    G = cg.CallGraph(P)
    thorough = ctx.tier == 'thorough'
    scope = ('src/', 'include/') if thorough else SCOPE
    # ---- sinks ------------------------------------------------------------------------------------------------------------------------
    sinks = set([cg.SIGNAL, cg.FUNCTION_OBJ, cg.INDIRECT])
    sinks |= G.keys_named(lambda q: q in SINK_EXACT)
    for base, names in SINK_VIRTUAL:
        for nme in names:
            for f in P.overriders(base, nme):
                sinks.add(f['key'])
            sinks |= G.keys_named(lambda q, b=base, n_=nme: q == b + '::' + n_)
    missing = [q for q in SINK_EXACT if not G.keys_named(lambda x, q=q: x == q)]
    if len(missing) > 3:
        raise AnalysisBroken('sink functions not found: %s' % missing[:5])
    for q in missing:
        ctx.notes.append('sink %s has no call site in this build' % q)
    R = G.reaching(sinks)
    ctx.stats['functions'] = len(P.fns)
    ctx.stats['call_sites'] = sum(len(v_) for v_ in G.out.values())

    # ---- R1 ---------------------------------------------------------------------------------------------------------------------------
    ctx.rule('R1', 'no traversal of an address-ordered container has a body that reaches an order-observable effect', 6)
    nsrc = 0
    for key, fn in sorted(P.fns.items()):
        if not fn.get('blocks') or not in_scope(fn, scope):
            continue
        if fn.get('tpl_pattern'):
            continue
        try:
            v = G.view(fn)
        except AnalysisBroken:
            continue
        sites = collect_sites(G, fn, v)
        seen = set()
        for line, desc, why, body, extra in sites:
            if (line, desc) in seen:
                continue
            seen.add((line, desc))
            nsrc += 1
            if body == 'fn':
                called = set(G.out.get(key, set()))
            else:
                called = G.calls_in_blocks(fn, body) if body else set()
            called |= set(extra)
            hit = sorted(c for c in called if c in R)
            inst = '%s: %s' % (fn['q'], desc)
            if not hit:
                ctx.holds('R1', inst, where(fn, line), 'body calls %d function(s), none reaches an order-observable effect' % len(called))
                continue
            chain = G.path_to(hit, sinks) or hit[:1]
            if not in_scope(fn, SCOPE):
                ctx.notes.append('outside the claimed scope, not decided: %s at %s (%s)' % (inst, where(fn, line), why))
                continue
            ctx.violation('R1', inst, where(fn, line),
                          '%s; the loop body reaches an order-observable effect: %s' % (why, ' -> '.join(G.qof.get(c, c) for c in chain)),
                          key='R1|%s|%s' % (fn['q'], desc))
    ctx.stats['paths'] = nsrc

    # ---- R2 heap comparators ------------------------------------------------------------------------------------------------------------
    ctx.rule('R2', 'the comparator of the kernel heaps (xbt::HeapComparator) orders by the date component only', 5)
    hc = [f for f in P.fns.values() if f['q'].startswith('simgrid::xbt::HeapComparator') and f['q'].endswith('::operator()') and f.get('blocks')]
    if not hc:
        ctx.unrecognised('R2', 'xbt::HeapComparator::operator() not found')
    done = set()
    for f in hc:
        v = FnView(f)
        rets = []
        for p in v.paths():
            for e in v.path_events(p):
                if e.kind == 'return':
                    rets.append(e.val)
        sig = tuple(rets)
        if sig in done:
            continue
        done.add(sig)
        ok = len(rets) == 1 and rets[0][0] == 'bin' and rets[0][1] in ('<', '>') and \
            all(t[0] == 'field' and t[2].endswith('::first') and t[1][0] == 'var' for t in (rets[0][2], rets[0][3]))
        ctx.check(ok, 'R2', 'HeapComparator compares .first of its two operands', where(f), ex.pretty(rets[0]) if rets else 'no return', key='R2|HeapComparator|first only')
    # every heap declared in scope (field, base class, local or global variable): equal keys must not be ordered by an address
    heaps = {}
    for cq, c in P.classes.items():
        f_ = c.get('file', '')
        for n_, t_, q_ in lib.fields(P, cq):
            if t_.startswith(('std::priority_queue<', 'boost::heap::')):
                heaps[q_] = (t_, f_, c.get('line', 0))
        for b_ in c.get('bases', ()):
            if b_.startswith(('std::priority_queue<', 'boost::heap::')):
                heaps[cq + ' (base class)'] = (b_, f_, c.get('line', 0))
    for key, fn in P.fns.items():
        for el in fn.get('elems') or ():
            x = el['x']
            if x.get('k') == 'Decl':
                for d in x.get('decls', ()):
                    t_ = fn.tstr(d.get('t', -1))
                    if t_.startswith(('std::priority_queue<', 'boost::heap::')) and 'd' in d:
                        heaps['%s::%s' % (fn['q'], d['d']['n'])] = (t_, fn['file'], el.get('l', 0))
    for gq, g in P.globals.items():
        t_ = g.tstr(g.get('t', -1))
        if t_.startswith(('std::priority_queue<', 'boost::heap::')):
            heaps[gq] = (t_, g.get('file', ''), g.get('line', 0))
    nheaps = 0
    for hq, (t_, f_, l_) in sorted(heaps.items()):
        rel = f_[len(REPO) + 1:] if f_.startswith(REPO + '/') else f_
        if not rel.startswith(SCOPE):
            continue
        nheaps += 1
        why = addr_ordered(t_)
        ctx.check(why is None, 'R2', 'heap %s' % hq.replace(K, ''), '%s:%s' % (rel, l_), why or ('ordered by %s' % ('xbt::HeapComparator (date only)' if 'HeapComparator' in t_ else 'its own comparator')),
                  key='R2|%s|tie-break' % hq)
    ctx.require(nheaps >= 2, 'R2', 'kernel heaps not found (%d)' % nheaps)

    # ---- R3 run queue discipline --------------------------------------------------------------------------------------------------------
    PROG_FNS.clear()
    PROG_FNS.update(P.fns)
    ctx.rule('R3', 'actors_to_run_ is only appended/swapped/cleared; simcalls are handled by one forward loop over actors_that_ran_; actor_list_ is keyed by pid', 12)
    EI = K + 'EngineImpl'
    flds = {n: (t, q) for n, t, q in lib.fields(P, EI)}
    for need in ('actors_to_run_', 'actors_that_ran_', 'actor_list_'):
        if need not in flds:
            raise AnalysisBroken('EngineImpl::%s not found' % need)
    ctx.check(flds['actors_to_run_'][0].startswith('std::vector<') and flds['actors_that_ran_'][0].startswith('std::vector<'), 'R3',
              'run queues are sequence containers', 'src/kernel/EngineImpl.hpp', flds['actors_to_run_'][0][:60], key='R3|EngineImpl|queue type')
    name, args = cg.parse_template(flds['actor_list_'][0])
    ctx.check(name == 'std::map' and args and args[0] in ('long', 'aid_t', 'int', 'unsigned long'), 'R3', 'actor_list_ is ordered by pid', 'src/kernel/EngineImpl.hpp',
              flds['actor_list_'][0][:70], key='R3|EngineImpl|actor_list_ key')
    allowed = {EI + '::add_actor_to_run_list_no_check': {'insert_back'}, EI + '::add_actor_to_run_list': {'insert_back', 'arg'},
               EI + '::run_all_actors': {'arg', 'iter', 'swap', 'clear'}, EI + '::run': set(), EI + '::has_actors_to_run': set(),
               EI + '::get_first_actor_to_run': {'read_front'}, EI + '::get_actor_to_run_at': {'index'}, EI + '::get_actor_to_run_count': set(),
               EI + '::get_actors_to_run': {'read'}, EI + '::EngineImpl': {'write'}}
    for u in lib.field_uses(P, flds['actors_to_run_'][1]):
        c = u.kind if u.kind != 'call' else lib.CONTAINER_OPS.get(u.method, 'other:' + str(u.method))
        if c == 'query' or (u.kind == 'write' and u.op == 'init'):
            continue
        c = refine_iterator_use(u, c)
        ok = c in allowed.get(u.fn['q'], {'<none>'})
        ctx.check(ok, 'R3', 'actors_to_run_: %s in %s' % (u.method or u.kind, u.fn['q'].replace(K, '')), where(u.fn, u.line), 'operation class %s' % c,
                  key='R3|%s|actors_to_run_ %s' % (u.fn['q'].rsplit('::', 1)[-1], c))
    allowed2 = {EI + '::run_all_actors': {'arg'}, EI + '::run': {'iter'}, EI + '::get_actors_that_ran': {'read'}, EI + '::EngineImpl': {'write'}}
    for u in lib.field_uses(P, flds['actors_that_ran_'][1]):
        c = u.kind if u.kind != 'call' else lib.CONTAINER_OPS.get(u.method, 'other:' + str(u.method))
        if c == 'query' or (u.kind == 'write' and u.op == 'init'):
            continue
        c = refine_iterator_use(u, c)
        ok = c in allowed2.get(u.fn['q'], {'<none>'})
        ctx.check(ok, 'R3', 'actors_that_ran_: %s in %s' % (u.method or u.kind, u.fn['q'].replace(K, '')), where(u.fn, u.line), 'operation class %s' % c,
                  key='R3|%s|actors_that_ran_ %s' % (u.fn['q'].rsplit('::', 1)[-1], c))
    # the handling loop
    runf = P.fn(EI + '::run')
    v = G.view(runf)
    hsites = []
    for eid, el in enumerate(runf['elems']):
        for n in ex.walk(el['x']):
            if n.get('k') == 'Call' and (n.get('c') or {}).get('q') == K + 'actor::ActorImpl::simcall_handle':
                hsites.append((eid, n))
    okh = False
    if len(hsites) == 1:
        body = enclosing_loop(G, v, hsites[0][0])
        if body is not None:
            heads = [b for b in body if v.blocks[b].get('t') and v.blocks[b]['t'].get('k') == 'CXXForRangeStmt']
            rngs = [d for el in runf['elems'] if el['x'].get('k') == 'Decl' for d in el['x'].get('decls', ())
                    if d.get('d', {}).get('n', '').startswith('__range') and d.get('init') is not None and
                    ex.mentions(v.norm(d['init']), lib.this_field(flds['actors_that_ran_'][1]))]
            okh = len(heads) >= 1 and len(rngs) == 1
    ctx.check(okh, 'R3', 'simcall_handle is called from one range-for over actors_that_ran_ in EngineImpl::run', where(runf, hsites[0][1].get('l') if hsites else None),
              '%d call site(s)' % len(hsites), key='R3|run|handling loop')

    # ---- R4 ambient nondeterminism ------------------------------------------------------------------------------------------------------
    ctx.rule('R4', 'kernel and S4U code calls no wall-clock, random or pid source outside the enumerated benign uses', 2)
    namb = 0
    for key, fn in sorted(P.fns.items()):
        if not in_scope(fn, ('src/kernel/', 'src/s4u/', 'include/simgrid/s4u/', 'include/simgrid/kernel/')):
            continue
        for c in sorted(G.out.get(key, ())):
            q = G.qof.get(c, c)
            if q in AMBIENT:
                namb += 1
                owner = fn['q'].split('::<lambda')[0]
                reason = AMBIENT_OK.get((owner, q))
                if reason:
                    ctx.holds('R4', '%s calls %s' % (owner, q), where(fn), 'listed: ' + reason)
                else:
                    ctx.violation('R4', '%s calls %s' % (owner, q), where(fn), 'an ambient source of nondeterminism is read by simulation code', key='R4|%s|%s' % (owner, q))
    ctx.holds('R4', 'scan of %d kernel/S4U functions for %d ambient sources' % (len([1 for f in P.fns.values() if in_scope(f, ('src/kernel/', 'src/s4u/'))]), len(AMBIENT)), '', '%d use(s) found' % namb)
    ctx.assume('calls through std::function, xbt::signal and function pointers are unknown user code (treated as order-observable)')
    ctx.assume('implicit destructor calls are not part of the call graph; unordered containers keyed by strings or integers iterate identically across runs of one binary')
    return EXPLANATION
