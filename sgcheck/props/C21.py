"""C21 — Work is conserved (part): the remaining work of an action only decreases, by rate x elapsed time, and FINISHED is declared exactly on
`remains <= 0` (or an exhausted duration).  The load/capacity and progress-rate clauses are numeric and are not decided."""
from .. import cg, ex, lib
from ..core import where
from ..ir import AnalysisBroken, REPO

UNITS = None        # all library units: the who-may-write rule quantifies over every writer
K = 'simgrid::kernel::resource::'
REM = K + 'Action::remains_'
EXPLANATION = ('Necessary structure of "remaining work never increases and reaches zero exactly when the activity completes".  R1 who-may-write: '
               'Action::remains_ is written only by the Action constructor (= cost), Action::set_remains and, through double_update, '
               'Action::update_remains; double_update subtracts and clamps to 0 below the precision.  R2 every call of update_remains passes a product '
               'of a rate/amount getter and the elapsed time of the enclosing update (delta, or now - get_last_update()), possibly rounded or divided '
               'by a factor, or the remaining amount itself - never a difference or a negated term; every call of set_remains passes 0, the remains of '
               'the action being replaced, or the byte count ns-3 reports.  R3 sibling agreement of the update loops: finish(FINISHED) is reached iff '
               '(remains <= 0 and the action is not suspended) or (a maximum duration is set and exhausted), decided on the finite set of orderings of '
               'the three quantities.  Rates and elapsed times are assumed non-negative (C03, C15).')


def strip(t):
    while t is not None and t[0] in ('cast', 'conv'):
        t = t[2]
    return t


def all_events(A, f):
    v = A.view(f)
    for eid in range(len(f['elems'])):
        for e in v.events_of(eid):
            if e.eid == eid:
                yield e


def product_factors(t):
    """factors of a product, looking through casts, rint() and divisions by a factor; None if the term is not such a product"""
    t = strip(t)
    if t[0] == 'call' and t[1] in ('rint', 'std::rint', 'round', 'std::round', 'floor', 'std::floor') and t[3]:
        return product_factors(t[3][0])
    if t[0] == 'bin' and t[1] == '*':
        a, b = product_factors(t[2]), product_factors(t[3])
        return None if a is None or b is None else a + b
    if t[0] == 'bin' and t[1] == '/':
        a = product_factors(t[2])
        return None if a is None else a + [('div', strip(t[3]))]
    if t[0] == 'bin' or (t[0] == 'un' and t[1] == '-'):
        return None
    return [t]


def run(ctx):
    from ..core import EXCLUDED_UNITS
    units = [u[len(REPO) + 1:] for u in ctx.all_units() if u not in EXCLUDED_UNITS]
    P = ctx.load([u for u in units if u.startswith(('src/kernel/', 'src/plugins/', 'src/s4u/', 'src/bindings/', 'src/instr/', 'src/simgrid/', 'src/dag/'))])
    A = ctx.analyzer
    # ---- R1 ---------------------------------------------------------------------------------------------------------------------------------
    ctx.rule('R1', 'Action::remains_ is written only by the constructor, set_remains and update_remains (double_update: subtract, clamp to 0)', 4)
    allowed = {K + 'Action::Action': 'init', K + 'Action::set_remains': 'assign', K + 'Action::update_remains': 'addr'}
    nw = 0
    for u in lib.field_uses(P, REM):
        if u.kind in ('read', 'member') or (u.kind == 'call' and u.method in ('load',)):
            continue
        nw += 1
        q = u.fn['q']
        ok = q in allowed
        detail = ''
        if ok and u.kind == 'addr':
            par = [n for el in u.fn['elems'] for n in ex.walk(el['x']) if n.get('k') == 'Call' and (n.get('c') or {}).get('q', '').endswith('double_update')]
            ok = len(par) == 1
            detail = 'address handed to double_update'
        ctx.check(ok, 'R1', 'remains_ written in %s (%s)' % (q.replace(K, ''), u.kind if u.kind != 'write' else (u.op or 'write')), where(u.fn, u.line),
                  detail if ok else 'the remaining work can be changed outside the accounting functions', key='R1|%s|writes remains_' % q.replace(K, ''))
    ctx.require(nw >= 3, 'R1', 'writers of remains_ not found (%d)' % nw)
    du = [f for f in P.fns.values() if f['q'] == 'double_update' and f.get('blocks')]
    if not du:
        ctx.unrecognised('R1', 'double_update not found')
    else:
        f = du[0]
        v = A.view(f)
        var = lib.parm_i(f, 0)
        val = lib.parm_i(f, 1)
        prec = lib.parm_i(f, 2)
        target = ('un', '*', var)
        sub = clamp = False
        other = []
        for p in v.paths():
            if p.exit in ('noreturn', 'cut'):
                continue
            evs = v.path_events(p)
            for e in evs:
                if e.kind == 'assign' and strip(e.lhs) == target:
                    if e.op == '-=' and strip(e.rhs) == val:
                        sub = True
                    elif e.op == '=' and strip(e.rhs) in (('float', 0.0), ('int', 0)):
                        facts = [(x.atom, x.pol) for x in evs if x.kind == 'branch' and x.line <= e.line]
                        clamp = clamp or any(a[0] == 'bin' and a[1] == '<' and strip(a[2]) == target and strip(a[3]) == prec and pol for a, pol in facts)
                    else:
                        other.append('%s %s' % (e.op, ex.pretty(e.rhs)))
        ctx.check(sub and clamp and not other, 'R1', 'double_update: *variable -= value; below the precision it becomes 0', where(f), 'subtract=%s clamp=%s other writes=%s' % (sub, clamp, other),
                  key='R1|double_update|subtract and clamp')

    # ---- R2 ---------------------------------------------------------------------------------------------------------------------------------
    ctx.rule('R2', 'update_remains is given rate x elapsed time (or the remains itself); set_remains is given 0 or a carried-over amount', 8)
    n2 = 0
    for f in sorted(P.fns.values(), key=lambda f_: f_['key']):
        if not f.get('blocks'):
            continue
        for e in all_events(A, f):
            if e.kind != 'call' or not e.args:
                continue
            short = f['q'].replace(K, '').replace('simgrid::kernel::', '')
            if e.q == K + 'Action::update_remains':
                n2 += 1
                arg = strip(e.args[0])
                if arg[0] == 'call' and arg[1].split('<')[0] in ('std::min', 'fmin', 'std::fmin') and len(arg[3]) == 2:
                    # min(amount x time, remains): the same subtraction, capped by what is left
                    parts = [strip(x) for x in arg[3]]
                    rest = [x for x in parts if not (x[0] == 'call' and x[1].endswith(('::get_remains', '::get_remains_no_update')))]
                    if len(rest) == 1:
                        arg = rest[0]
                fac = product_factors(arg)
                whole = arg[0] == 'call' and arg[1].endswith('::get_remains') and arg[2] == e.obj
                ok = whole
                detail = 'the whole remaining amount' if whole else ''
                if not whole and fac is not None:
                    times = []
                    for x in fac:
                        if x[0] == 'var' and x[2] == 'delta':
                            d = x
                            if x[1] == 'local':
                                defs = [y.rhs for y in all_events(A, f) if y.kind == 'assign' and y.lhs == x]
                                okd = len(defs) == 1 and strip(defs[0])[0] == 'bin' and strip(defs[0])[1] == '-' and strip(strip(defs[0])[2])[0] == 'var' and 'get_last_update' in repr(strip(defs[0])[3])
                                times.append('now - get_last_update()' if okd else None)
                            else:
                                times.append('delta')
                    amounts = [x for x in fac if x[0] == 'call' and x[1].rsplit('::', 1)[-1] in ('get_rate', 'get_last_value', 'get_cost', 'get_sharing_penalty', 'get_latency_factor') or x[0] == 'div' or
                               (x[0] == 'var' and x[2] != 'delta') or x[0] in ('int', 'float', 'field')]
                    neg = [x for x in fac if x[0] in ('int', 'float') and x[1] < 0]
                    # trace-integration model: the amount is the integral of the speed profile over [last update, now]
                    for x in fac:
                        if x[0] == 'var' and x[1] == 'local' and x[2] != 'delta':
                            defs = [y.rhs for y in all_events(A, f) if y.kind == 'assign' and y.lhs == x]
                            if len(defs) == 1 and any(t_[0] == 'call' and t_[1].endswith('::integrate') and 'last_update_' in repr(t_[3]) and 'now' in repr(t_[3]) for t_ in ex.subterms(defs[0])):
                                times.append('integral over [last_update_, now]')
                                amounts = [a_ for a_ in amounts if a_ != x]
                    ok = len(times) == 1 and times[0] is not None and len(amounts) == len(fac) - 1 and not neg and (len(amounts) >= 1 or times[0].startswith('integral'))
                    detail = 'factors %s' % [ex.pretty(x) if x[0] != 'div' else '/' + ex.pretty(x[1]) for x in fac]
                elif not whole:
                    detail = '%s is not a product of an amount and the elapsed time' % ex.pretty(arg)
                ctx.check(ok, 'R2', '%s: update_remains(%s)' % (short, ex.pretty(arg)[:80]), where(f, e.line), detail, key='R2|%s|update_remains' % short)
            elif e.q == K + 'Action::set_remains':
                n2 += 1
                arg = strip(e.args[0])
                ok = arg in (('int', 0), ('float', 0.0)) or (arg[0] == 'call' and arg[1].endswith('::get_remains')) or f['file'].endswith('network_ns3.cpp')
                ctx.check(ok, 'R2', '%s: set_remains(%s)' % (short, ex.pretty(arg)[:60]), where(f, e.line), '' if ok else 'the remaining work is set to an arbitrary amount', key='R2|%s|set_remains' % short)
    ctx.require(n2 >= 8, 'R2', 'only %d update_remains/set_remains sites found' % n2)

    # the subtraction itself: update_remains hands its parameter, unchanged, to double_update
    ur = P.fn(K + 'Action::update_remains')
    urv = A.view(ur)
    dus = [e for e in all_events(A, ur) if e.kind == 'call' and e.q == 'double_update' and len(e.args) >= 2]
    okarg = len(dus) == 1 and strip(dus[0].args[1]) == lib.parm_i(ur, 0)
    ctx.check(okarg, 'R2', 'Action::update_remains subtracts exactly the amount it is given', where(ur), 'double_update(&remains_, %s, ...)' % (ex.pretty(dus[0].args[1]) if dus else '?'),
              key='R2|Action::update_remains|amount passed on')
    # lazy accounting: the elapsed interval [last update, now] is debited at the rate that was in force during it (the saved last value), then both are refreshed
    nlz = 0
    for f in sorted(P.fns.values(), key=lambda f_: f_['key']):
        if not f.get('blocks') or not f['q'].endswith('::update_remains_lazy') or 'CpuTi' in f['q']:
            continue
        fv = A.view(f)
        debits = [e for e in all_events(A, f) if e.kind == 'call' and e.q == K + 'Action::update_remains']
        if not debits:
            continue
        nlz += 1
        short = f['q'].replace(K, '')
        fac = product_factors(strip(debits[0].args[0])) or []
        rate = [x for x in fac if x[0] == 'call' and x[1].rsplit('::', 1)[-1] in ('get_rate', 'get_last_value')]
        ctx.check(len(rate) == 1 and rate[0][1].endswith('::get_last_value'), 'R2', '%s debits the elapsed interval at the saved rate (get_last_value())' % short, where(f, debits[0].line),
                  'rate factor: %s' % [ex.pretty(x) for x in rate] + ('' if rate and rate[0][1].endswith('::get_last_value') else ': the current rate only holds from now on'), key='R2|%s|saved rate' % short)
        okref = None
        for p in fv.paths(max_visits=1):
            if p.exit in ('noreturn', 'cut', 'throw'):
                continue
            evs = fv.path_events(p)
            early = not any(e.kind == 'call' and e.q.endswith('::set_last_value') for e in evs) and not any(e.kind == 'assign' and 'delta' in repr(e.lhs) for e in evs)
            if early:
                continue        # the action is not running: nothing is accounted
            lu = [i for i, e in enumerate(evs) if e.kind == 'call' and e.q.endswith('::set_last_update')]
            lv = [i for i, e in enumerate(evs) if e.kind == 'call' and e.q.endswith('::set_last_value') and e.args and 'get_rate' in repr(e.args[0])]
            db = [i for i, e in enumerate(evs) if e.kind == 'call' and e.q == K + 'Action::update_remains']
            good = len(lu) == 1 and len(lv) == 1 and (not db or (db[-1] < lu[0] and db[-1] < lv[0]))
            okref = good if okref is None else (okref and good)
        ctx.check(bool(okref), 'R2', '%s refreshes the last update date and the saved rate after the debit, on every accounting path' % short, where(f),
                  '' if okref else 'the same interval is debited again at the next update, or at a stale rate', key='R2|%s|refresh after debit' % short)
    ctx.require(nlz >= 2, 'R2', 'only %d lazy accountants found' % nlz)

    # ---- R3 ---------------------------------------------------------------------------------------------------------------------------------
    ctx.rule('R3', 'update loops: finish(FINISHED) iff (remains <= 0 and not suspended) or (max duration set and exhausted)', 5)
    n3 = 0
    for f in sorted(P.fns.values(), key=lambda f_: f_['key']):
        if not f.get('blocks') or not f['q'].startswith(K):
            continue
        fins = [e for e in all_events(A, f) if e.kind == 'call' and e.q.endswith('Action::finish') and e.args and 'FINISHED' in repr(e.args[0])]
        if not fins:
            continue
        v = A.view(f)
        for e in fins:
            tb = f['elems'][e.eid]['b']
            # the closest dominating branch blocks that mention the remains
            atoms = [(b['id'], v.cond_atom(b['id'])) for b in v.blocks if v.cond_atom(b['id']) is not None and not v.is_log_branch(b['id'])]
            if not any('get_remains' in repr(ap[0]) for b, ap in atoms):
                continue        # lazy variants finish what the heap says is due now: C19
            rel = [b for b, ap in atoms if any(g in repr(ap[0]) for g in ('get_remains', 'get_max_duration', 'get_penalty'))]
            start = None
            dom = cg.dominators(v) if hasattr(cg, 'dominators') else None
            cands = [b for b in rel if lib.reaches_under(v, b, tb, {}, ())]
            if dom is not None:
                cands = [b for b in cands if b in dom.get(tb, set())]
            if not cands:
                ctx.unrecognised('R3', '%s line %s: guard of finish(FINISHED) not recognised' % (f['q'], e.line))
                continue
            # start from the guard block closest to entry among the candidates
            start = min(cands, key=lambda b: len(dom.get(b, ())) if dom else 0)
            has_pen = any('get_penalty' in repr(ap[0]) for b, ap in atoms)
            wrong = []
            if not has_pen and 'NetworkConstant' not in f['q']:     # the constant network model has no LMM variable, hence nothing to suspend: the only frozen exception
                wrong.append('its siblings also require penalty > 0 (a suspended action does not finish); this one does not test it')
            for rem in (-1.0, 0.0, 2.0):
                for pen in ((0.0, 1.0) if has_pen else (1.0,)):
                    for md in (-1.0, 0.0, 3.0):
                        env = {'get_remains': rem, 'get_remains_no_update': rem, 'get_penalty': pen, 'get_sharing_penalty': pen, 'get_max_duration': md, 'NO_MAX_DURATION': -1.0}
                        want = (rem <= 0 and pen > 0) or (md != -1.0 and md <= 0)
                        got = lib.reaches_under(v, start, tb, env, set(h['id'] for h in v.loop_heads()) - {start})
                        if got != want:
                            wrong.append('remains=%g penalty=%g max_duration=%g: %s' % (rem, pen, md, 'finished' if got else 'not finished'))
            n3 += 1
            short = f['q'].replace(K, '')
            note = '' if has_pen else ' (no LMM variable: no suspension test)'
            ctx.check(not wrong, 'R3', '%s: FINISHED iff remains <= 0%s or the duration is exhausted%s' % (short, ' and penalty > 0' if has_pen else '', note), where(f, e.line), '; '.join(wrong[:4]),
                      key='R3|%s|finish guard' % short)
    ctx.require(n3 >= 5, 'R3', 'only %d guarded finish(FINISHED) sites found' % n3)
    # ---- R4 the capacity handed to the solver is cores x the speed of one core now, the same speed that bounds each execution -----------------------
    ctx.rule('R4', 'CPU on_speed_change: the constraint bound is core_count x (scale x peak), the per-core speed that also bounds every execution on it', 2)

    def factors(t):
        """multiset of the factors of a product (as pretty strings), or None"""
        t = strip(t)
        if t[0] == 'bin' and t[1] == '*':
            a, b = factors(t[2]), factors(t[3])
            return None if a is None or b is None else sorted(a + b)
        if t[0] in ('bin', 'un'):
            return None
        return [ex.pretty(t)]
    n4 = 0
    for f in sorted(P.fns.values(), key=lambda f_: f_['key']):
        if not (f['q'].endswith('::on_speed_change') and f.get('blocks') and '/models/' in f['file']):
            continue
        evs = list(all_events(A, f))
        cb = [e for e in evs if e.kind == 'call' and e.q.endswith('System::update_constraint_bound') and len(e.args) == 2]
        if len(cb) != 1:
            continue
        n4 += 1
        fs = factors(cb[0].args[1])
        short = f['q'].replace(K, '')
        percore = None
        if fs is not None:
            cores = [x for x in fs if 'core_count' in x]
            percore = sorted(x for x in fs if 'core_count' not in x)
            okc = len(cores) == 1 and bool(percore)
        else:
            okc = False
        ctx.check(okc, 'R4', '%s: capacity = core count x the speed of one core' % short, where(f, cb[0].line),
                  'per-core speed %s' % percore if okc else 'capacity is %s: not a product of the core count and a per-core speed' % ex.pretty(cb[0].args[1]),
                  key='R4|%s|capacity' % short)
        # per-execution bound in the same function (and in execution_start of the same class)
        cls = f['q'].rsplit('::', 1)[0]
        for g in [f] + [g_ for g_ in P.fns.values() if g_['q'] == cls + '::execution_start' and g_.get('blocks') and len(g_['params']) == 3]:
            for e in all_events(A, g):
                t = None
                if e.kind == 'assign' and e.lhs[0] == 'var' and e.lhs[2] == 'bound' and e.decl:
                    t = e.rhs
                elif e.kind == 'new' and 'Action' in e.nf[1] and e.nf[2]:
                    a_ = e.nf[2][0][2] if e.nf[2][0][0] == 'ctor' else e.nf[2]
                    t = a_[3] if len(a_) > 3 else None
                if t is None:
                    continue
                ft = factors(t)
                if ft is None:
                    continue
                pc = sorted(x for x in ft if 'core' not in x)
                n4 += 1
                ctx.check(pc == percore, 'R4', '%s: an execution is bounded by (cores requested x) the same per-core speed as the capacity' % g['q'].replace(K, ''), where(g, e.line),
                          'execution bound uses %s, capacity uses %s' % (pc, percore), key='R4|%s|per-core speed' % g['q'].replace(K, ''))
    ctx.require(n4 >= 2, 'R4', 'only %d capacity / execution bound computations found' % n4)
    ctx.assume('rates and elapsed times are non-negative (C03-R2: time_delta >= 0; C15 is not decided); the load <= capacity and the S*min(1, n/k) clauses are numeric and not decided')
    return EXPLANATION
