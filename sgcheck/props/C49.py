"""C49 — The parallel map runs each item exactly once (DESIGN.md 3, C49)."""
from .. import cg, ex, lib
from ..core import where
from ..ir import AnalysisBroken

UNITS = ['src/kernel/context/ContextSwapped.cpp']
EXPLANATION = ('On the instantiation of xbt::Parmap used by the swapped contexts: R1 the work index common_index is a std::atomic, modified only by '
               'fetch_add(1) in work()/next() and reset by apply(); every element access (*common_data)[i] uses an i that is the result of such a '
               'fetch_add and is dominated by i < size, so no index is handed out twice and none is used out of range.  R2 apply() publishes the '
               'function, the data and index 0, then signals the workers, works, and waits for all of them before returning.  R3 the three '
               'synchronisation variants agree: master_signal sets thread_counter to 1 and increments work_round, worker_signal increments '
               'thread_counter, master_wait waits for thread_counter >= num_workers, worker_wait for work_round == expected; worker_main waits, '
               'works, then signals, every round.')


def run(ctx):
    P = ctx.load(UNITS)
    A = ctx.analyzer
    insts = sorted(set(f['q'].rsplit('::', 1)[0] for f in P.fns.values() if f['q'].startswith('simgrid::xbt::Parmap<') and f['q'].endswith('>::work')))
    if len(insts) != 1:
        raise AnalysisBroken('expected one instantiation of xbt::Parmap, found %s' % insts)
    PM = insts[0]                      # qualified name prefix of the instantiated members
    PC = 'simgrid::xbt::Parmap'        # class record / field owner
    CI = PM + '::common_index'         # member declarations of the instantiation carry its template arguments
    CD = PM + '::common_data'

    def m(name):
        fs = [f for f in P.fns.values() if f['q'] == PM + '::' + name and f.get('blocks')]
        if len(fs) != 1:
            raise AnalysisBroken('%s::%s: %d definitions' % (PM, name, len(fs)))
        return fs[0]

    # ---- R1 -------------------------------------------------------------------------------------------------------------------------------
    ctx.rule('R1', 'common_index is atomic, only advanced by fetch_add(1); every element access uses such an index under index < size', 5)
    ft = [t for n, t, q in lib.fields(P, PC) if n == 'common_index']
    ctx.check(len(ft) == 1 and ft[0].startswith('std::atomic<'), 'R1', 'common_index is a std::atomic', 'src/xbt/parmap.hpp', ft[0] if ft else 'field not found', key='R1|common_index|atomic')
    allowed = {'work': {'fetch_add'}, 'next': {'fetch_add'}, 'apply': {'operator=', 'store'}}
    for u in lib.field_uses(P, CI):
        if u.kind == 'write' and u.op == 'init':
            continue
        meth = u.method or u.kind
        owner = u.fn['q'].rsplit('::', 1)[-1]
        ok = meth in allowed.get(owner, set())
        detail = 'operation %s' % meth
        if ok and meth == 'fetch_add':
            args = u.parent.get('a') or []
            ok = bool(args) and args[0].get('k') == 'Int' and args[0].get('v') == 1
            detail += '(%s)' % (args[0].get('v') if args else '?')
        if ok and owner == 'apply':
            args = u.parent.get('a') or []
            ok = bool(args) and args[0].get('k') == 'Int' and args[0].get('v') == 0
        ctx.check(ok, 'R1', 'common_index: %s in %s' % (meth, owner), where(u.fn, u.line), detail, key='R1|%s|common_index %s' % (owner, meth))
    for name in ('work', 'next'):
        f = m(name)
        v = A.view(f)
        from ..lib import dominating_facts
        naccess = 0
        for eid, el in enumerate(f['elems']):
            for e in v.events_of(eid):
                pass
            for n in ex.walk(el['x']):
                if n.get('k') == 'Call' and (n.get('c') or {}).get('q', '').endswith('::operator[]') and n.get('obj') is not None:
                    t = v.norm(n)
                    if t[0] != 'call' or 'common_data' not in repr(t[2]):
                        continue
                    naccess += 1
                    idx = t[3][0]
                    # the index variable only ever receives fetch_add results
                    defs = [x for eid2 in range(len(f['elems'])) for x in v.events_of(eid2) if x.kind == 'assign' and x.lhs == idx]
                    from_fa = bool(defs) and all(x.rhs[0] == 'call' and x.rhs[1].endswith('::fetch_add') and x.rhs[2] == lib.this_field(CI) for x in defs)
                    dom = dominating_facts(A, f, el['x'])
                    bounded = False
                    for a_, t_ in dom:
                        if a_[0] == 'bin' and a_[1] == '<' and a_[2] == idx and t_:
                            b = a_[3]
                            if b[0] == 'call' and b[1].endswith('::size') and 'common_data' in repr(b[2]):
                                bounded = True
                            if b[0] == 'var':
                                bd = [x for eid2 in range(len(f['elems'])) for x in v.events_of(eid2) if x.kind == 'assign' and x.lhs == b]
                                bounded = bounded or (len(bd) == 1 and '::size' in repr(bd[0].rhs) and 'common_data' in repr(bd[0].rhs))
                    ctx.check(from_fa and bounded, 'R1', '%s(): (*common_data)[%s]' % (name, ex.pretty(idx)), where(f, n.get('l')), 'index from fetch_add only: %s; dominated by index < size: %s' % (from_fa, bounded),
                              key='R1|%s|element access' % name)
        ctx.require(naccess >= 1, 'R1', '%s(): no access to common_data found' % name)
        if name == 'work':
            # along every path the handed-out indices and the applications alternate: fetch (apply fetch)*
            okalt, napp = True, 0
            for p in v.paths(max_visits=3):
                if p.exit in ('noreturn', 'cut'):
                    continue
                s = ''
                for e in v.path_events(p):
                    if e.kind == 'call' and e.q.endswith('::fetch_add') and e.obj == lib.this_field(CI):
                        s += 'f'
                    if e.kind == 'call' and e.q.endswith('::operator()') and e.obj == lib.this_field(PM + '::worker_fun'):
                        s += 'a'
                        napp += 1
                        okalt = okalt and bool(e.args) and e.args[0][0] == 'call' and e.args[0][1].endswith('::operator[]')
                okalt = okalt and s.startswith('f') and s[1:] == 'af' * (len(s) // 2) and len(s) % 2 == 1
            ctx.check(okalt and napp >= 1, 'R1', 'work(): each index handed out by fetch_add is applied exactly once (fetch (apply fetch)*)', where(f), '', key='R1|work|one application per index')

    # ---- R2 ----------------------------------------------------------------------------------------------------------------------------------
    ctx.rule('R2', 'apply(): publish function, data and index 0; master_signal(); work(); master_wait(); in that order on every path', 1)
    ap = m('apply')
    v = A.view(ap)
    ok2 = None
    for p in v.paths():
        if p.exit in ('noreturn', 'cut'):
            continue
        evs = v.path_events(p)
        order = []
        for e in evs:
            if e.kind == 'call' and e.q.endswith('::operator=') and e.obj is not None and e.obj[0] == 'field' and e.obj[2] in (PM + '::worker_fun', CI):
                order.append('pub:' + e.obj[2].rsplit('::', 1)[-1])
            if e.kind == 'assign' and e.lhs[0] == 'field' and e.lhs[2] in (CD, CI, PM + '::worker_fun'):
                order.append('pub:' + e.lhs[2].rsplit('::', 1)[-1])
            if e.kind == 'call' and e.q.endswith('::master_signal'):
                order.append('signal')
            if e.kind == 'call' and e.q == PM + '::work':
                order.append('work')
            if e.kind == 'call' and e.q.endswith('::master_wait'):
                order.append('wait')
        pubs = [x for x in order if x.startswith('pub:')]
        rest = [x for x in order if not x.startswith('pub:')]
        good = set(pubs) == {'pub:worker_fun', 'pub:common_data', 'pub:common_index'} and rest == ['signal', 'work', 'wait'] and order.index('signal') > max(i for i, x in enumerate(order) if x.startswith('pub:'))
        ok2 = good if ok2 is None else (ok2 and good)
    ctx.check(bool(ok2), 'R2', 'Parmap::apply ordering', where(ap), '', key='R2|apply|publish signal work wait')

    # ---- R3 -----------------------------------------------------------------------------------------------------------------------------------------
    ctx.rule('R3', 'the synchronisation variants agree on the protocol; worker_main waits, works, signals every round', 10)
    TC = PM + '::thread_counter'
    WR = PM + '::work_round'
    syn = sorted(set(f['q'].rsplit('::', 1)[0] for f in P.fns.values() if f['q'].startswith(PM + '::') and f['q'].endswith('Synchro::master_signal') and f.get('blocks')))
    ctx.require(len(syn) >= 2, 'R3', 'synchro variants not found: %s' % syn)

    def effects(f):
        """abstract effects of a synchro method: set of (field, op, arg) + comparisons waited on"""
        v_ = A.view(f)
        eff = set()
        fns = [f]
        # predicates of condition-variable waits are lambdas
        for el in f['elems']:
            for n in ex.walk(el['x']):
                if n.get('k') == 'Lambda' and n['fn'] in P.fns:
                    fns.append(P.fns[n['fn']])
        for g in fns:
            vg = A.view(g)
            for eid in range(len(g['elems'])):
                for e in vg.events_of(eid):
                    tgt = None
                    if e.kind == 'call' and e.obj is not None and e.obj[0] == 'field' and e.obj[2] in (TC, WR):
                        tgt = e.obj[2].rsplit('::', 1)[-1]
                        nm = e.q.rsplit('::', 1)[-1]
                        if nm in ('store', 'operator='):
                            eff.add((tgt, 'set', e.args[0][1] if e.args and e.args[0][0] == 'int' else '?'))
                        elif nm in ('fetch_add',):
                            eff.add((tgt, 'inc', e.args[0][1] if e.args and e.args[0][0] == 'int' else '?'))
                        elif nm in ('operator++',):
                            eff.add((tgt, 'inc', 1))
                    if e.kind == 'assign' and e.lhs[0] == 'field' and e.lhs[2] in (TC, WR):
                        eff.add((e.lhs[2].rsplit('::', 1)[-1], 'set', e.rhs[1] if e.rhs[0] == 'int' else '?'))
                    if e.kind == 'incdec' and e.lhs[0] == 'field' and e.lhs[2] in (TC, WR) and e.op == '++':
                        eff.add((e.lhs[2].rsplit('::', 1)[-1], 'inc', 1))
            inloop = set()
            for h_ in vg.loop_heads():
                inloop |= cg.natural_loop(vg, h_['id']) | {h_['id']}
            blocking = any(e.kind == 'call' and e.q.rsplit('::', 1)[-1] in ('futex_wait', 'yield', 'sched_yield') for eid in range(len(g['elems'])) for e in vg.events_of(eid))
            for b in vg.blocks:
                at = vg.cond_atom(b['id'])
                if at:
                    r = repr(at[0])
                    # a futex or a busy wait can return before the condition holds (value changed once, spurious wake-up): it must be re-tested in a loop
                    once = g is f and b['id'] not in inloop
                    if 'num_workers' in r and at[0][0] == 'bin' and at[0][1] == '<':
                        eff.add(('wait-once' if once else 'wait', 'thread_counter>=num_workers'))
                    if at[0][0] == 'bin' and at[0][1] == '==' and ('round' in r) and ('work_round' in r or 'round' in r) and 'num_workers' not in r:
                        eff.add(('wait-once' if once else 'wait', 'work_round==expected'))
            for eid in range(len(g['elems'])):
                for e in vg.events_of(eid):
                    if e.kind == 'return':
                        r = repr(e.val)
                        if 'num_workers' in r and 'thread_counter' in r and e.val[0] == 'bin' and e.val[1] in ('<', '>=', '<='):
                            eff.add(('wait', 'thread_counter>=num_workers'))
                        if 'work_round' in r and e.val[0] == 'bin' and e.val[1] == '==':
                            eff.add(('wait', 'work_round==expected'))
        return eff
    want = {'master_signal': {('thread_counter', 'set', 1), ('work_round', 'inc', 1)}, 'worker_signal': {('thread_counter', 'inc', 1)},
            'master_wait': {('wait', 'thread_counter>=num_workers')}, 'worker_wait': {('wait', 'work_round==expected')}}
    for cls in syn:
        for nm, need in sorted(want.items()):
            fs = [f for f in P.fns.values() if f['q'] == cls + '::' + nm and f.get('blocks')]
            if len(fs) != 1:
                ctx.unrecognised('R3', '%s::%s: %d definitions' % (cls, nm, len(fs)))
                continue
            eff = effects(fs[0])
            core = set(x for x in eff if x[0] in ('thread_counter', 'work_round', 'wait', 'wait-once'))
            ok = need <= core and not [x for x in core - need if x[1] in ('set', 'inc')] and not [x for x in core if x[0] == 'wait-once']
            ctx.check(ok, 'R3', '%s::%s' % (cls.rsplit('::', 1)[-1], nm), where(fs[0]), 'effects %s, protocol %s' % (sorted(core, key=repr), sorted(need, key=repr)), key='R3|%s|%s' % (cls.rsplit('::', 1)[-1], nm))
    # order inside master_signal: the completion counter is reset *before* the round number moves (the round number is what releases the workers: a worker released
    # first could add its completion to the old counter value, which the reset then erases); threshold of master_wait: exactly num_workers, no offset
    for cls in syn:
        fs = [f for f in P.fns.values() if f['q'] == cls + '::master_signal' and f.get('blocks')]
        if len(fs) == 1:
            vv = A.view(fs[0])
            orders = set()
            for p_ in vv.paths(max_visits=1):
                if p_.exit in ('noreturn', 'cut', 'throw'):
                    continue
                seq = []
                for e in vv.path_events(p_):
                    tgt = None
                    if e.kind == 'call' and e.obj is not None and e.obj[0] == 'field' and e.obj[2] in (TC, WR) and e.q.rsplit('::', 1)[-1] in ('store', 'operator=', 'fetch_add', 'operator++'):
                        tgt = e.obj[2]
                    elif e.kind in ('assign', 'incdec') and e.lhs[0] == 'field' and e.lhs[2] in (TC, WR):
                        tgt = e.lhs[2]
                    if tgt:
                        seq.append('counter' if tgt == TC else 'round')
                orders.add(tuple(seq))
            ctx.check(orders == {('counter', 'round')}, 'R3', '%s::master_signal resets the counter before it moves the round' % cls.rsplit('::', 1)[-1], where(fs[0]), 'write order(s): %s' % sorted(orders),
                      key='R3|%s|master_signal order' % cls.rsplit('::', 1)[-1])
        fs = [f for f in P.fns.values() if f['q'] == cls + '::master_wait' and f.get('blocks')]
        if len(fs) == 1:
            gs = [fs[0]] + [P.fns[n['fn']] for el in fs[0]['elems'] for n in ex.walk(el['x']) if n.get('k') == 'Lambda' and n['fn'] in P.fns]
            exact = []
            for g in gs:
                vg = A.view(g)
                terms = [vg.cond_atom(b['id'])[0] for b in vg.blocks if vg.cond_atom(b['id'])] + [e.val for eid in range(len(g['elems'])) for e in vg.events_of(eid) if e.kind == 'return' and e.val is not None]
                for t in terms:
                    for x in ex.subterms(t):
                        if x[0] == 'bin' and x[1] in ('<', '>=', '<=', '>') and 'num_workers' in repr(x):
                            sides = [x[2], x[3]]
                            while sides[0][0] in ('cast', 'conv'):
                                sides[0] = sides[0][2]
                            while sides[1][0] in ('cast', 'conv'):
                                sides[1] = sides[1][2]
                            nw = [y for y in sides if y[0] == 'field' and y[2].endswith('::num_workers')]
                            other = [y for y in sides if not (y[0] == 'field' and y[2].endswith('::num_workers'))]
                            plain = len(nw) == 1 and len(other) == 1 and other[0][0] in ('var', 'field', 'call') and not any(z[0] == 'bin' and z[1] in ('+', '-') for z in ex.subterms(other[0]))
                            strict = x[1] in ('<', '>=')
                            exact.append(plain and strict)
            ctx.check(bool(exact) and all(exact), 'R3', '%s::master_wait waits until the counter reaches exactly num_workers' % cls.rsplit('::', 1)[-1], where(fs[0]), '%d comparison(s)' % len(exact),
                      key='R3|%s|master_wait threshold' % cls.rsplit('::', 1)[-1])
    wm = m('worker_main')
    v = A.view(wm)
    okw = False
    for h in v.loop_heads():
        body = cg.natural_loop(v, h['id']) | {h['id']}
        seq = []
        for p in v.paths(start=h['id'], max_visits=1):
            evs = v.path_events(p)
            names = []
            for e in evs:
                if e.kind == 'incdec' and e.lhs[0] == 'var' and e.lhs[2] == 'round':
                    names.append('round++')
                if e.kind == 'call' and e.q.endswith('::worker_wait'):
                    names.append('wait')
                if e.kind == 'branch' and 'destroying' in repr(e.atom):
                    names.append('destroying=%s' % e.pol)
                if e.kind == 'call' and e.q == PM + '::work':
                    names.append('work')
                if e.kind == 'call' and e.q.endswith('::worker_signal'):
                    names.append('signal')
            if 'work' in names:
                seq.append(names[:5])
        okw = bool(seq) and all(s == ['round++', 'wait', 'destroying=False', 'work', 'signal'] for s in seq)
        if okw:
            break
    ctx.check(okw, 'R3', 'worker_main: round++, worker_wait(round), (stop if destroying), work(), worker_signal()', where(wm), '', key='R3|worker_main|round')
    ctx.assume('memory-model arguments (the relaxed fetch_add is ordered by the acquire/release of the synchro primitives) are assumed, not decided')
    return EXPLANATION
