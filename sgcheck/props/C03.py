"""C03 — Simulated time is monotone and events happen exactly at their date (DESIGN.md 3, C03)."""
from .. import ex, ir, lib
from ..cfg import abstract_run
from ..core import where
from ..ir import AnalysisBroken, REPO

K = 'simgrid::kernel::'
EI = K + 'EngineImpl'
NOW = EI + '::now_'
EXPLANATION = ('R1: the clock EngineImpl::now_ is written only in EngineImpl::solve (who-may-write over every unit that can see the member).  R2: '
               'finite-state exploration of solve(): the only advancing write is now_ += time_delta on paths that excluded time_delta < 0 since its '
               'last assignment; every other write is the first half of a save/restore pair (saved = now_; now_ = d; ...; now_ = saved) closed before '
               'any exit.  R3: Timer::execute_all fires while clock >= top.date and pops exactly the timer it fires; Timer::set keys the heap with '
               'its date argument unchanged.  R4: dates and durations are handed over unchanged: set_kill_time -> Timer::set, ActorImpl::sleep -> '
               'SleepImpl::set_duration -> CpuImpl::sleep -> set_max_duration (CpuCas01 only raises a positive duration to the timing precision).  '
               'R5: run() asks solve() for min(next timer, max_date).  R6: Action::finish stamps the finish time with the clock and '
               'handle_ended_actions copies it to the activity.')


def is_now(t):
    return t[0] == 'var' and t[2] == NOW


def run(ctx):
    units = ir.units_including(['src/kernel/EngineImpl.hpp'])
    extra = ['src/kernel/timer/Timer.cpp', 'src/kernel/activity/SleepImpl.cpp', 'src/kernel/resource/models/cpu_cas01.cpp', 'src/kernel/resource/Action.cpp',
             'src/kernel/actor/ActorImpl.cpp', 'src/kernel/EngineImpl.cpp']
    P = ctx.load(sorted(set([u[len(REPO) + 1:] for u in units] + extra)))
    A = ctx.analyzer
    solve = P.fn(EI + '::solve')

    # ---- R1 who may write the clock ----------------------------------------------------------------------------------------------------
    ctx.rule('R1', 'EngineImpl::now_ is written (assigned, incremented, or has its address taken) only in EngineImpl::solve', 3)
    nw = 0
    for fn in P.fns.values():
        elems = fn.get('elems')
        if not elems:
            continue
        for eid, el in enumerate(elems):
            stack = [(el['x'], None, None)]
            while stack:
                n, parent, slot = stack.pop()
                if not isinstance(n, dict):
                    continue
                if n.get('k') == 'Ref' and n['d'].get('n') == NOW and parent is not None:
                    pk = parent.get('k')
                    w = (pk == 'Bin' and parent.get('op') in ex.ASSIGN_OPS and slot == 0) or (pk == 'Un' and parent.get('op') in ('++', '--', '&'))
                    nonconst_ref = pk in ('Call', 'New0') and isinstance(slot, int) and False
                    if w or nonconst_ref:
                        nw += 1
                        ctx.check(fn['key'] == solve['key'], 'R1', 'write of now_ in %s' % fn['q'].replace(K, ''), where(fn, el.get('l')), 'operator %s' % parent.get('op'),
                                  key='R1|%s|writes now_' % fn['q'])
                for i, a in enumerate(n.get('a') or ()):
                    stack.append((a, n, i))
                if n.get('obj') is not None:
                    stack.append((n['obj'], n, 'obj'))
                if n.get('k') == 'Decl':
                    for d in n.get('decls', ()):
                        if d.get('init') is not None:
                            t_ = fn.tstr(d.get('t', -1))
                            init = d['init']
                            if init.get('k') == 'Ref' and init['d'].get('n') == NOW and t_.endswith('&') and not t_.startswith('const '):
                                nw += 1
                                ctx.violation('R1', 'non-const reference to now_ in %s' % fn['q'], where(fn, el.get('l')), 'the clock can be written through %s' % d.get('d', {}).get('n'),
                                              key='R1|%s|aliases now_' % fn['q'])
                            stack.append((init, n, 'init'))
    ctx.require(nw >= 3, 'R1', 'writes of now_ not found (%d)' % nw)

    # ---- R2 the shape of the writes in solve() ----------------------------------------------------------------------------------------------
    ctx.rule('R2', 'solve(): now_ += time_delta only with time_delta >= 0 established; every other write is a save/restore pair closed before any exit', 1)
    td = [p for p in solve['elems'] if p['x'].get('k') == 'Decl' and any(d.get('d', {}).get('n') == 'time_delta' for d in p['x'].get('decls', ()))]
    if not td:
        raise AnalysisBroken('solve(): local time_delta not found')

    def tr(st, e):
        saved, moved, nonneg, advanced, bad = st
        if e.kind == 'assign' and e.lhs[0] == 'var' and e.lhs[2] == 'time_delta':
            nonneg = False
        if e.kind == 'branch' and e.atom[0] == 'bin' and e.atom[1] == '<' and e.atom[2][0] == 'var' and e.atom[2][2] == 'time_delta' and e.atom[3] in (('int', 0), ('float', 0.0)):
            nonneg = not e.pol
        if e.kind == 'assign' and e.rhs[0] == 'var' and is_now(e.rhs) and e.op == '=' and e.lhs[0] == 'var':
            saved = e.lhs
        elif e.kind == 'assign' and e.lhs == saved and saved is not None:
            bad = bad or 'the saved clock value is modified before being restored (line %s)' % e.line
        if e.kind == 'assign' and is_now(e.lhs):
            if e.op == '+=':
                if not (e.rhs[0] == 'var' and e.rhs[2] == 'time_delta'):
                    bad = bad or 'now_ += %s (line %s): not the guarded delta' % (ex.pretty(e.rhs), e.line)
                elif not nonneg:
                    bad = bad or 'now_ += time_delta without having excluded time_delta < 0 (line %s)' % e.line
                elif moved:
                    bad = bad or 'the clock is advanced while displaced (line %s)' % e.line
                advanced = True
            elif e.op == '=':
                if moved and e.rhs == saved:
                    moved = False
                elif not moved and saved is not None:
                    moved = True
                else:
                    bad = bad or 'now_ = %s (line %s) is neither a displacement after a save nor the restore of the saved value' % (ex.pretty(e.rhs), e.line)
            else:
                bad = bad or 'now_ %s ... (line %s)' % (e.op, e.line)
        if e.kind == 'incdec' and is_now(e.lhs):
            bad = bad or 'now_%s (line %s)' % (e.op, e.line)
        if e.kind in ('return', 'throw') and moved:
            bad = bad or 'exit while the clock is displaced (line %s)' % e.line
        return (saved, moved, nonneg, advanced, bad)
    exits = abstract_run(A, solve, (None, False, False, False, None), tr)
    sts = exits['normal']
    bads = sorted(set(s[4] for s in sts if s[4])) + (['the function can end with the clock displaced'] if any(s[1] for s in sts) else [])
    ctx.check(bool(sts) and not bads and any(s[3] for s in sts), 'R2', 'EngineImpl::solve: writes of now_', where(solve), '; '.join(bads) or '%d exit state(s), all clean' % len(sts),
              key='R2|solve|clock writes')

    # ---- R3 timers --------------------------------------------------------------------------------------------------------------------------
    ctx.rule('R3', 'Timer::execute_all fires while clock >= top.date and pops the timer it fires; Timer::set keys the heap with its date argument', 3)
    T = K + 'timer::Timer'
    ea = P.fn(T + '::execute_all')
    v = A.view(ea)
    okcond = False
    for h in v.loop_heads():
        for b in [h['id']] + [x['id'] for x in v.blocks]:
            a = v.cond_atom(b)
            if a and a[0][0] == 'bin' and a[0][1] == '<' and a[0][2] == ('call', 'simgrid::s4u::Engine::get_clock', None, ()) and a[0][3][0] == 'field' and a[0][3][2].endswith('::first'):
                okcond = 'top' in repr(a[0][3])
    okpop = False
    for p in v.paths(max_visits=2):
        evs = v.path_events(p)
        seq = [e for e in evs if (e.kind == 'assign' and e.rhs[0] == 'field' and e.rhs[2].endswith('::second') and 'top' in repr(e.rhs)) or
               (e.kind == 'call' and (e.q.endswith('::pop') or e.q.endswith('Timer::callback') or e.q.endswith('::operator()')))]
        names = ['top' if e.kind == 'assign' else e.q.rsplit('::', 1)[-1] for e in seq[:3]]
        if names[:2] == ['top', 'pop'] and len(names) >= 3:
            tv = seq[0].lhs
            okpop = seq[2].obj is not None and ex.mentions(seq[2].obj, tv)
    ctx.check(okcond, 'R3', 'execute_all loop condition is !(clock < top().first)', where(ea), '', key='R3|execute_all|condition')
    ctx.check(okpop, 'R3', 'execute_all: reads top().second, pops, then runs that timer\'s callback', where(ea), '', key='R3|execute_all|pop what fires')
    sets = P.fns_named(T + '::set')
    base = [f for f in sets if f['file'].endswith('Timer.cpp')]
    if len(base) != 1:
        raise AnalysisBroken('Timer::set(double, Task&&): %d definitions' % len(base))
    ts = base[0]
    v = A.view(ts)
    dparm = lib.parm(ts, 'date')
    okset = False
    for p in v.paths():
        for e in v.path_events(p):
            if e.kind == 'call' and e.q.endswith('::emplace') and e.args and e.args[0][0] == 'call' and e.args[0][1] == 'std::make_pair' and e.args[0][3][0] == dparm:
                okset = True
    ctx.check(okset, 'R3', 'Timer::set inserts (date, timer) with the date argument unchanged', where(ts), '', key='R3|Timer::set|date identity')
    okfw = True
    nfw = 0
    for f in sets:
        if f is ts or not f.get('blocks'):
            continue
        v = A.view(f)
        dp = lib.parm(f, 'date')
        for p in v.paths():
            for e in v.path_events(p):
                if e.kind == 'call' and e.q == T + '::set':
                    nfw += 1
                    okfw = okfw and e.args[0] == dp
    ctx.check(okfw and nfw >= 1, 'R3', 'the Timer::set<F> wrapper forwards its date unchanged (%d instantiation(s))' % nfw, where(ts), '', key='R3|Timer::set<F>|date identity')

    # ---- R4 dates handed over unchanged -----------------------------------------------------------------------------------------------------
    ctx.rule('R4', 'kill time and sleep duration are handed over unchanged down to Timer::set / set_max_duration', 5)

    def passes(fq, callee_suffix, argi, parm_name=None, field=None, nparams=None):
        f = P.fn(fq, nparams)
        v_ = A.view(f)
        want = lib.parm(f, parm_name) if parm_name else lib.this_field(field)
        found = False
        for p in v_.paths():
            if p.exit in ('noreturn', 'cut'):
                continue
            for e in v_.path_events(p):
                if e.kind == 'call' and e.q.endswith(callee_suffix) and len(e.args) > argi:
                    found = True
                    if e.args[argi] != want:
                        return f, False, ex.pretty(e.args[argi])
        return f, found, 'unchanged' if found else 'call not found'
    for fq, callee, argi, parm_name, field in ((K + 'actor::ActorImpl::set_kill_time', 'timer::Timer::set', 0, 'kill_time', None),
                                               (K + 'actor::ActorImpl::sleep', 'SleepImpl::set_duration', 0, 'duration', None),
                                               (K + 'activity::SleepImpl::start', '::sleep', 0, None, K + 'activity::SleepImpl::duration_')):
        f, ok, detail = passes(fq, callee, argi, parm_name, field)
        ctx.check(ok, 'R4', '%s -> %s' % (fq.replace(K, ''), callee.lstrip(':')), where(f), detail, key='R4|%s|identity' % fq.replace(K, ''))
    sd = P.fn(K + 'activity::SleepImpl::set_duration')
    v = A.view(sd)
    oksd = any(e.kind == 'assign' and e.lhs == lib.this_field(K + 'activity::SleepImpl::duration_') and e.rhs == lib.parm(sd, 'duration') for p in v.paths() for e in v.path_events(p))
    ctx.check(oksd, 'R4', 'SleepImpl::set_duration stores its argument', where(sd), '', key='R4|SleepImpl::set_duration|identity')
    # CpuCas01::sleep: duration only ever replaced by max(duration, precision) under duration > 0
    cs = P.fn(K + 'resource::CpuCas01::sleep')
    v = A.view(cs)
    dp = lib.parm(cs, 'duration')
    okc = True
    nmax = 0
    for p in v.paths():
        if p.exit in ('noreturn', 'cut'):
            continue
        evs = v.path_events(p)
        pos = False
        for e in evs:
            if e.kind == 'branch' and e.atom[0] == 'bin' and e.atom[1] == '<=' and e.atom[2] == dp and e.atom[3] in (('int', 0), ('float', 0.0)):
                pos = not e.pol
            if e.kind == 'assign' and e.lhs == dp:
                ismax = e.rhs[0] == 'call' and e.rhs[1] == 'std::max' and dp in e.rhs[3]
                nmax += 1
                okc = okc and pos and ismax
                pos = False
        smd = [e for e in evs if e.kind == 'call' and e.q.endswith('Action::set_max_duration')]
        okc = okc and len(smd) == 1 and smd[0].args == (dp,)
    ctx.check(okc, 'R4', 'CpuCas01::sleep: the duration reaches set_max_duration, only raised to max(duration, precision) when positive', where(cs), '%d clamp(s)' % nmax,
              key='R4|CpuCas01::sleep|duration')

    # ---- R5 run() never jumps past the next timer -------------------------------------------------------------------------------------------------
    ctx.rule('R5', 'EngineImpl::run hands solve() the next timer date, or min(next timer, max_date), or max_date only when there is no timer', 1)
    runf = P.fn(EI + '::run')
    v = A.view(runf)
    mx = lib.parm(runf, 'max_date')
    forms = set()

    def tr5(st, e):
        nt, val, bad = st
        if e.kind == 'assign' and e.rhs[0] == 'call' and e.rhs[1].endswith('Timer::next'):
            return (e.lhs, 'timer', bad)
        if nt is not None and e.kind == 'assign' and e.lhs == nt:
            if e.rhs == mx:
                return (nt, 'max_date_notimer' if val == 'notimer' else 'max_date', bad)
            if e.rhs[0] == 'call' and e.rhs[1] == 'std::min' and set(e.rhs[3]) == {nt, mx}:
                return (nt, 'min', bad)
            return (nt, '?', 'next_time = %s' % ex.pretty(e.rhs))
        if nt is not None and e.kind == 'branch' and e.atom[0] == 'bin' and e.atom[1] == '<' and e.atom[2] == nt and e.atom[3] in (('int', 0), ('float', 0.0)) and val == 'timer':
            return (nt, 'timer' if not e.pol else 'notimer', bad)
        if nt is not None and e.kind == 'assign' and val == 'notimer' and e.lhs == nt and e.rhs == mx:
            return (nt, 'max_date_notimer', bad)
        if e.kind == 'call' and e.q == EI + '::solve':
            forms.add((val, e.args[0] == nt if nt is not None else False))
            return (None, None, bad)
        return None
    abstract_run(A, runf, (None, None, None), tr5)
    okforms = forms and all(f[1] and f[0] in ('timer', 'min', 'notimer', 'max_date_notimer', 'max_date') for f in forms)
    # 'max_date' (plain) is only acceptable when the timer test said "no timer": enforced by tracking 'notimer'
    bad5 = [f for f in forms if f[0] == 'max_date']
    ctx.check(bool(okforms) and not bad5, 'R5', 'run(): argument of solve()', where(runf), 'forms %s' % sorted(forms, key=repr), key='R5|run|solve argument')

    # ---- R6 finish time = clock -----------------------------------------------------------------------------------------------------------------------
    ctx.rule('R6', 'Action::finish stamps finish_time_ with the clock; handle_ended_actions copies it to the activity', 2)
    af = P.fn(K + 'resource::Action::finish')
    v = A.view(af)
    ok6 = any(e.kind == 'assign' and e.lhs == lib.this_field(K + 'resource::Action::finish_time_') and e.rhs == ('call', EI + '::get_clock', None, ()) for p in v.paths() for e in v.path_events(p))
    ctx.check(ok6, 'R6', 'Action::finish: finish_time_ = EngineImpl::get_clock()', where(af), '', key='R6|Action::finish|stamp')
    hea = P.fn(EI + '::handle_ended_actions')
    v = A.view(hea)
    ok6b = False
    for p in v.paths(max_visits=2):
        for e in v.path_events(p):
            if e.kind == 'call' and e.q.endswith('ActivityImpl::set_finish_time') and e.args and e.args[0][0] == 'call' and e.args[0][1].endswith('Action::get_finish_time'):
                ok6b = True
        if ok6b:
            break
    ctx.check(ok6b, 'R6', 'handle_ended_actions: activity->set_finish_time(action->get_finish_time())', where(hea), '', key='R6|handle_ended_actions|copy')
    gc = P.fn(EI + '::get_clock')
    v = A.view(gc)
    okg = any(e.kind == 'return' and is_now(e.val) for p in v.paths() for e in v.path_events(p))
    ctx.check(okg, 'R1', 'EngineImpl::get_clock returns now_', where(gc), '', key='R1|get_clock|returns now_')
    # ---- R7 the two sentinel idioms of solve(), decided on the finite set of orderings their operands can have ------------------------------
    ctx.rule('R7', 'solve(): the deadline caps the step for every date (only -1 means none); a model event replaces the step iff it is >= 0 and earlier (or the step is still unset)', 2)
    vs = A.view(solve)
    cap = [e for eid in range(len(solve['elems'])) for e in vs.events_of(eid) if e.kind == 'assign' and e.lhs[0] == 'var' and e.lhs[2] == 'time_delta' and e.rhs[0] == 'bin' and e.rhs[1] == '-' and
           e.rhs[2][0] == 'var' and e.rhs[2][1] == 'parm' and is_now(e.rhs[3])]
    loops = vs.loop_heads()
    if len(cap) != 1 or not loops:
        ctx.unrecognised('R7', 'solve(): `time_delta = max_date - now_` not found (%d)' % len(cap))
    else:
        pname = cap[0].rhs[2][2]
        tb = solve['elems'][cap[0].eid]['b']
        stop = set(h['id'] for h in loops)
        wrong = []
        for md, nw_, want in ((-1.0, 0.0, False), (0.0, 0.0, True), (5.0, 0.0, True), (5.0, 5.0, True), (1e-9, 0.0, True)):
            got = lib.reaches_under(vs, solve['entry'], tb, {pname: md, 'now_': nw_}, stop)
            if got != want:
                wrong.append('max_date=%g at now=%g: the step is %s by the deadline' % (md, nw_, 'capped' if got else 'not capped'))
        ctx.check(not wrong, 'R7', 'solve(): the step is capped by max_date for every date >= now (0 included) and only for -1 it is not', where(solve, cap[0].line), '; '.join(wrong), key='R7|solve|deadline sentinel')
    upd = [e for eid in range(len(solve['elems'])) for e in vs.events_of(eid) if e.kind == 'assign' and e.lhs[0] == 'var' and e.lhs[2] == 'time_delta' and e.rhs[0] == 'var' and e.rhs[2] == 'next_event']
    src = [e for eid in range(len(solve['elems'])) for e in vs.events_of(eid) if e.kind == 'assign' and e.lhs[0] == 'var' and e.lhs[2] == 'next_event' and e.decl]
    if len(upd) != 1 or len(src) != 1:
        ctx.unrecognised('R7', 'solve(): `time_delta = next_event` not found (%d/%d)' % (len(upd), len(src)))
    else:
        sb = solve['elems'][src[0].eid]['b']
        tb = solve['elems'][upd[0].eid]['b']
        heads = set(h['id'] for h in loops)
        wrong = []
        for tdv in (-1.0, 0.0, 1.0, 3.0):
            for nev in (-1.0, 0.0, 1.0, 3.0):
                if nev == tdv and nev >= 0:
                    continue        # equal dates: either choice gives the same step
                want = nev >= 0 and (tdv < 0 or nev < tdv)
                got = lib.reaches_under(vs, sb, tb, {'time_delta': tdv, 'next_event': nev}, heads - {sb})
                if got != want:
                    wrong.append('step=%g, model event in %g: the step is %s' % (tdv, nev, 'replaced' if got else 'kept'))
        ctx.check(not wrong, 'R7', 'solve(): time_delta = next_event iff next_event >= 0 and (time_delta < 0 or next_event < time_delta)', where(solve, upd[0].line), '; '.join(wrong[:4]), key='R7|solve|model event minimum')
    run_units(ctx, P, A)
    ctx.assume('the value of next_occurring_event of the models (what time_delta is) and sub-precision behaviour are not decided')
    return EXPLANATION


def run_units(ctx, P, A):
    """R8: dates and durations in the clock computation (P20 with an affine base)"""
    from .. import dims
    ctx.rule('R8', 'EngineImpl::solve and run: now_, max_date, the next timer date and the next profile event date are dates, time_delta / elapsed_time and what the models '
             'return are durations; date - date = duration, date + duration = date; the clock advances by a duration, timers are keyed by dates', 12)
    KQ = 'simgrid::kernel::'
    D = dims.Dims(('second', '@date'), {})
    u = D.unit
    S, DATE = u(second=1), u(second=1, **{'@date': 1})
    D.fields = {KQ + 'EngineImpl::now_': DATE, KQ + 'timer::Timer::date_': DATE}
    D.getters = {KQ + 'profile::FutureEvtSet::next_date': DATE, KQ + 'timer::Timer::next': DATE, KQ + 'timer::Timer::get_date': DATE, KQ + 'EngineImpl::solve': S,
                 KQ + 'EngineImpl::get_clock': DATE, 'simgrid::s4u::Engine::get_clock': DATE}
    D.arg_units = {KQ + 'EngineImpl::solve': {0: DATE}, KQ + 'timer::Timer::set': {0: DATE}, KQ + 'profile::FutureEvtSet::pop_leq': {0: DATE}}
    D.param_units = {(KQ + 'EngineImpl::solve', 'max_date'): DATE, (KQ + 'EngineImpl::run', 'max_date'): DATE, (KQ + 'timer::Timer::set', 'date'): DATE, (KQ + 'timer::Timer::Timer', 'date'): DATE}
    D.ret_units = {KQ + 'EngineImpl::solve': S}
    D.globals_one = {'sg_precision_timing': S}
    # the non-idempotent (ns-3) model is handed the step instead of a date, and its answer is taken as the new step: both are durations
    D.getters[KQ + 'resource::Model::next_occurring_event'] = S
    fns = sorted([f for f in P.fns.values() if f.get('blocks') and f['q'] in (KQ + 'EngineImpl::solve', KQ + 'EngineImpl::run', KQ + 'timer::Timer::set', KQ + 'timer::Timer::execute_all', KQ + 'timer::Timer::next')],
                 key=lambda f: f['key'])
    ctx.require(len(fns) >= 3, 'R8', 'solve/run/Timer functions not found (%d)' % len(fns))
    D.run(A, fns)
    for r in D.decided:
        ctx.holds('R8', '%s: %s %s %s' % (r['fn'].replace(KQ, ''), r['a'][:70], r['what'], r['b'][:70]), '', '[%s]' % D.show(r['da']))
    for r in D.conflicts:
        f = [x for x in fns if x['q'] == r['fn']][0]
        ctx.violation('R8', '%s: %s %s %s' % (r['fn'].replace(KQ, ''), r['a'][:70], r['what'], r['b'][:70]), where(f, r['line']),
                      'left side is a %s, right side a %s' % ('date' if r['da'][-1] else 'duration', 'date' if r['db'][-1] else 'duration') if len(r['da']) == 2 and len(r['db']) == 2 else 'units differ',
                      key='R8|%s|%s %s %s' % (r['fn'].rsplit('::', 1)[-1], r['a'][:60], r['what'], r['b'][:60]))
    for frag in ('now_', 'max_date', 'next_event_date'):
        ctx.require(any(frag in r['a'] or frag in r['b'] for r in D.decided + D.conflicts), 'R8', 'no decided site mentions %s' % frag)
