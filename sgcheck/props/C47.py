"""C47 — Paje traces are well formed (DESIGN.md 3, C47): pairing, declaration, ordering and container-lifetime structure of the trace writer."""
from .. import cg, ex, lib
from ..cfg import abstract_run
from ..core import where
from ..ir import AnalysisBroken

SMPI_UNITS = ['src/smpi/bindings/smpi_pmpi.cpp', 'src/smpi/bindings/smpi_pmpi_coll.cpp', 'src/smpi/bindings/smpi_pmpi_file.cpp',
              'src/smpi/bindings/smpi_pmpi_request.cpp', 'src/smpi/bindings/smpi_pmpi_win.cpp', 'src/smpi/internals/smpi_replay.cpp',
              'src/smpi/internals/smpi_bench.cpp', 'src/smpi/internals/instr_smpi.cpp', 'src/smpi/mpi/smpi_request.cpp']
INSTR_UNITS = ['src/instr/instr_paje_trace.cpp', 'src/instr/instr_paje_events.cpp', 'src/instr/instr_paje_containers.cpp', 'src/instr/instr_paje_types.cpp',
               'src/instr/instr_platform.cpp', 'src/instr/instr_config.cpp', 'src/instr/instr_resource_utilization.cpp', 'src/instr/instr_interface.cpp']
S4U_UNITS = ['src/s4u/s4u_Comm.cpp', 'src/s4u/s4u_Exec.cpp']
UNITS = SMPI_UNITS + INSTR_UNITS + S4U_UNITS
NS = 'simgrid::instr::'
PAIRS = {'TRACE_smpi_comm_in': 'TRACE_smpi_comm_out', 'TRACE_smpi_sleeping_in': 'TRACE_smpi_sleeping_out'}
EXPLANATION = ('Structural necessary conditions of a well-formed Paje trace.  R1 pairing: in every function that pushes an MPI state '
               '(TRACE_smpi_comm_in / sleeping_in) every normal return has popped it exactly once, for the same rank, and never pops first; the '
               'in/out helpers push and pop under the same enabling condition.  R2 declaration before use: every state value pushed or set is '
               'declared for that state type (add_entity_value on the creation path of the type, or immediately before the push on the same '
               'state object); events take their value from get_entity_value, which refuses unknown names; every constructor that registers a '
               'container, type or value fires the creation signal that writes its definition line.  R3 timestamps: the event buffer is kept '
               'sorted (insertion scans from the back for the first event not later) and dumped in order; every line written to the trace file '
               'without going through the buffer first flushes the buffered events that must precede it; events are dated with the current '
               'clock.  R4 container lifetime: a destroyed container is unregistered from the name table and from its parent, and the buffered '
               'events are flushed before its destruction line.  R5 the start signal of an activity is fired at most once per start, and the '
               'states pushed from a start-like signal are popped from the matching completion-like signal.')


def handles(ctx, P, A):
    """R6: Container::get_state/get_variable/get_link return the Type object shared by every container of that container type and record the calling container *in it*
    (set_calling_container): the handle means "this type, for that container" only until the next get_* of the same name."""
    ctx.rule('R6', 'a type handle kept in a variable (x = container->get_state/get_variable/get_link(name)) is used before any other get_* with the same name is executed: the '
             'calling container is stored in the shared Type object, so a later lookup re-binds every handle of that name', 3)
    GETS = (NS + 'Container::get_state', NS + 'Container::get_variable', NS + 'Container::get_link')

    def strip(t):
        while t[0] in ('cast', 'conv'):
            t = t[2]
        return t
    nh = 0
    for f in sorted(P.fns.values(), key=lambda f_: f_['key']):
        if not f.get('blocks'):
            continue
        v = A.view(f)
        hs = [e for eid in range(len(f['elems'])) for e in v.events_of(eid) if e.kind == 'assign' and e.eid == eid and strip(e.lhs)[0] == 'var' and strip(e.rhs)[0] == 'call' and strip(e.rhs)[1] in GETS]
        if not hs:
            continue
        bad = []

        def tr(st, e, bad=bad):
            # st: sorted tuple of (handle var, name term, valid)   (a tuple: abstract_run takes a returned set for a set of states)
            if e.kind == 'assign' and strip(e.lhs)[0] == 'var' and strip(e.rhs)[0] == 'call' and strip(e.rhs)[1] in GETS:
                nm = strip(e.rhs)[3][0] if strip(e.rhs)[3] else None
                return tuple(sorted([x for x in st if x[0] != strip(e.lhs)] + [(strip(e.lhs), nm, True)], key=repr))
            if e.kind == 'call' and e.q in GETS:
                nm = e.args[0] if e.args else None

                def lit(t):
                    for x in ex.subterms(t) if t is not None else ():
                        if x[0] == 'str':
                            return x[1]
                    return None
                # the lookup that defines a handle is seen first as a call: it invalidates the *other* handles of that name (any name when one is not a literal)
                return tuple(sorted([(h, n, ok and lit(n) is not None and lit(nm) is not None and lit(n) != lit(nm)) for h, n, ok in st], key=repr))
            if e.kind == 'call' and e.obj is not None:
                for h, n, ok in st:
                    if strip(e.obj) == h and not ok:
                        bad.append((e.line, h[2], e.q.rsplit('::', 1)[-1]))
            return st
        abstract_run(A, f, (), tr)
        for h in hs:
            nh += 1
        short = f['q'].split('::<lambda')[0].replace(NS, '') + (' (callback at line %s)' % f['line'] if '<lambda' in f['q'] else '')
        if bad:
            line, hv, meth = sorted(set(bad))[0]
            ctx.violation('R6', '%s: type handles are used before being re-bound' % short, where(f, line),
                          '%s() is called on `%s` after another get_* of the same name ran: the event goes to the container of the later lookup' % (meth, hv),
                          key='R6|%s|stale handle %s' % (f['q'].split('::<lambda')[0].rsplit('::', 1)[-1], hv))
        else:
            ctx.holds('R6', '%s: %d handle(s) used before any re-binding lookup' % (short, len(hs)), where(f), '')
    ctx.require(nh >= 3, 'R6', 'only %d stored type handles found' % nh)


def run(ctx):
    P = ctx.load(UNITS)
    A = ctx.analyzer
    # ---- R1 --------------------------------------------------------------------------------------------------------------------------
    ctx.rule('R1', 'every function pushing an MPI state pops it exactly once, for the same rank, before every normal return', 60)
    users = []
    for f in sorted(P.fns.values(), key=lambda f_: f_['key']):
        if not f.get('blocks') or f['q'] in PAIRS or f['q'] in PAIRS.values():
            continue
        v = A.view(f)
        ins = [e for eid in range(len(f['elems'])) for e in v.events_of(eid) if e.kind == 'call' and e.q in PAIRS and e.eid == eid]
        if ins:
            users.append((f, ins))
    for f, ins in users:
        def tr(st, e):
            stack, bad = st
            if e.kind != 'call':
                return None
            if e.q in PAIRS:
                if len(stack) >= 2:
                    return (stack, bad or ('deep', e.line))
                return (stack + ((PAIRS[e.q], e.args[0]),), bad)
            if e.q in PAIRS.values():
                if not stack:
                    return (stack, bad or ('pop without push', e.line))
                want, who = stack[-1]
                if want != e.q:
                    return (stack[:-1], bad or ('%s closes a state opened for %s' % (e.q, want), e.line))
                if who != e.args[0]:
                    return (stack[:-1], bad or ('pushed for %s, popped for %s' % (ex.pretty(who), ex.pretty(e.args[0])), e.line))
                return (stack[:-1], bad)
            return None
        exits = abstract_run(A, f, ((), None), tr)
        sts = exits['normal']
        open_ = sorted(set(s[0][-1][0] for s in sts if s[0]))
        bad = sorted(set(s[1] for s in sts | exits['throw'] if s[1]), key=repr)
        short = f['q'].replace('simgrid::smpi::', '')
        detail = ''
        if open_:
            detail = 'a normal return is reachable with the state still pushed (%s never called on that path)' % ', '.join(open_)
        elif bad:
            detail = '%s at line %s' % bad[0]
        ctx.check(bool(sts) and not open_ and not bad, 'R1', '%s: %d push site(s) balanced on every normal return' % (short, len(ins)), where(f, ins[0].line), detail, key='R1|%s|push/pop' % short)
    ctx.require(len(users) >= 60, 'R1', 'only %d functions pushing MPI states found' % len(users))
    helpers_agree(ctx, P, A)
    lam = lambda_sites(P, A)
    declared_values(ctx, P, A, lam)
    event_values(ctx, P, A)
    creation_signals(ctx, P, A)
    ordering(ctx, P, A)
    lifetime(ctx, P, A)
    signals(ctx, P, A, lam)
    handles(ctx, P, A)
    ctx.assume('uniqueness of link keys, the Paje header, cancelled activities (no completion signal) and user-supplied dates of the public TRACE_* API are not decided; the vm tracing '
               'option is outside the options the property quantifies over (and aborts at platform load: on_vm_creation is run for every host)')
    return EXPLANATION


# ------------------------------------------------------------------------------------------------------------------------------------------
def strof(t):
    """string literal behind a std::string temporary / conversion, else None"""
    while t is not None:
        if t[0] == 'str':
            return t[1]
        if t[0] == 'ctor' and 'basic_string' in t[1] and t[2]:
            t = t[2][0]
        elif t[0] in ('cast', 'conv'):
            t = t[2]
        else:
            return None
    return None


def strsrc(t):
    """the term a std::string temporary is built from"""
    while t is not None and ((t[0] == 'ctor' and 'basic_string' in t[1] and t[2]) or t[0] in ('cast', 'conv')):
        t = t[2][0] if t[0] == 'ctor' else t[2]
    return t


def trace_facts(A, fn, node):
    """the TRACE_* configuration predicates that dominate a node, as {(predicate, truth)}"""
    out = set()
    for a, t in lib.dominating_facts(A, fn, node):
        if a[0] == 'truthy' and a[1][0] == 'call' and a[1][1].startswith('TRACE_'):
            out.add((a[1][1], t))
    return out


def lambda_sites(P, A):
    """lambda key -> (enclosing function, Lambda node)"""
    out = {}
    for f in P.fns.values():
        for el in f.get('elems') or ():
            for n in ex.walk(el['x']):
                if n.get('k') == 'Lambda' and n.get('fn'):
                    out[n['fn']] = (f, el['x'])
    return out


def all_events(A, f):
    v = A.view(f)
    for eid in range(len(f['elems'])):
        for e in v.events_of(eid):
            if e.eid == eid:
                yield e


def instr_fns(P):
    return [f for f in sorted(P.fns.values(), key=lambda f_: f_['key']) if f.get('blocks') and ('/src/instr/' in f['file'] or f['file'].endswith('instr_smpi.cpp'))]


def state_name(A, f, t):
    """name of the state type a receiver denotes: X.get_state("T"), by_name_or_create<StateType>("T"), or a local bound to one of them"""
    seen = 0
    while t is not None and seen < 4:
        seen += 1
        if t[0] in ('cast', 'conv'):
            t = t[2]
            continue
        if t[0] == 'call' and (t[1].endswith('::get_state') or 'by_name_or_create' in t[1]) and t[3]:
            return strof(t[3][0])
        if t[0] == 'call' and t[1].endswith('::set_calling_container'):
            t = t[2]
            continue
        if t[0] == 'var':
            defs = [e.rhs for e in all_events(A, f) if e.kind == 'assign' and e.lhs == t]
            if len(defs) != 1:
                return None
            t = defs[0]
            continue
        return None
    return None


def helpers_agree(ctx, P, A):
    for fin, fout in sorted(PAIRS.items()):
        facts = {}
        for q, meth in ((fin, 'push_event'), (fout, 'pop_event')):
            f = P.fn(q)
            calls = [e for e in all_events(A, f) if e.kind == 'call' and e.q.endswith('StateType::' + meth)]
            if len(calls) != 1:
                ctx.unrecognised('R1', '%s: %d calls of %s' % (q, len(calls), meth))
                return
            o = calls[0].obj
            if o[0] == 'var':
                dd = [e.rhs for e in all_events(A, f) if e.kind == 'assign' and e.lhs == o]
                o = dd[0] if len(dd) == 1 else o
            cont = o[2] if o[0] == 'call' and o[1].endswith('::get_state') else None
            facts[q] = (trace_facts(A, f, calls[0].node), state_name(A, f, calls[0].obj), cont is not None and cont[0] == 'call' and cont[1] == 'smpi_container' and cont[3] == (lib.parm_i(f, 0),))
        same_cont = facts[fin][2] and facts[fout][2]
        ctx.check(facts[fin][0] == facts[fout][0] and facts[fin][1] == facts[fout][1] and facts[fin][1] is not None and same_cont, 'R1',
                  '%s pushes and %s pops the same state type under the same configuration predicates' % (fin, fout), where(P.fn(fin)),
                  'push: %s on %s; pop: %s on %s' % (sorted(facts[fin][0]), facts[fin][1], sorted(facts[fout][0]), facts[fout][1]), key='R1|%s|guards agree' % fin)


# ---- R2 ----------------------------------------------------------------------------------------------------------------------------------------
def declared_values(ctx, P, A, lam):
    ctx.rule('R2', 'every state value pushed or set is declared for its state type before; events take their value from get_entity_value; creation fires the definition signal', 25)
    decl = {}       # state type name -> {value: [(fn, facts, creating)]}
    fns = instr_fns(P)
    for f in fns:
        evs = list(all_events(A, f))
        creating = set()
        for e in evs:
            if e.kind == 'call' and 'by_name_or_create' in e.q and 'StateType' in (e.key or e.q) and e.args:
                n = strof(e.args[0])
                if n:
                    creating.add(n)
        makes_container = any(e.kind == 'call' and (e.q.endswith('::create_child') or e.q == 'TRACE_smpi_setup_container') for e in evs) or \
            any(e.kind == 'new' and 'Container' in repr(e.nf) for e in evs)
        for e in evs:
            if e.kind == 'call' and e.q.endswith('::add_entity_value') and e.args:
                T = state_name(A, f, e.obj)
                val = strof(e.args[0])
                if T is None:
                    continue
                decl.setdefault(T, {}).setdefault(val if val is not None else ('dyn', strsrc(e.args[0])), []).append(
                    (f, trace_facts(A, f, e.node), T in creating or makes_container, e))
    nsites = 0
    skipped_vm = 0
    regname = {}     # lambda key -> the signal it is connected to (a name that does not move with line numbers)
    for g in fns:
        for e in all_events(A, g):
            if e.kind == 'call' and e.args and (e.q.endswith('_cb') or e.q.endswith('::connect')):
                for t in ex.subterms(e.args[0]):
                    if t[0] == 'lambda':
                        regname[t[1]] = e.q.replace('simgrid::s4u::', '').replace('Activity_T<', '').replace('>', '').replace('simgrid::', '')
    for f in fns:
        if f['q'].startswith(NS + 'StateType::'):
            continue
        for e in all_events(A, f):
            if not (e.kind == 'call' and e.args and (e.q.endswith('StateType::push_event') or e.q.endswith('StateType::set_event'))):
                continue
            T = state_name(A, f, e.obj)
            val = strof(e.args[0])
            facts = trace_facts(A, f, e.node)
            if f['key'] in lam:
                facts |= trace_facts(A, lam[f['key']][0], lam[f['key']][1])
            if ('TRACE_vm_is_enabled', True) in facts:
                skipped_vm += 1
                continue
            short = f['q'].replace(NS, '').split('::<lambda')[0] + ('::<%s>' % regname.get(f['key'], 'lambda') if '<lambda' in f['q'] else '')
            nsites += 1
            if T is None and val is None and f['file'].endswith('instr_interface.cpp'):
                ctx.holds('R2', '%s: state and value named by the user program (public TRACE_* API); unknown names are refused by get_entity_value' % short, where(f, e.line))
                continue
            if T is None:
                ctx.unrecognised('R2', '%s line %s: state type of the receiver not recognised' % (short, e.line))
                continue
            # lazy idiom: the same value declared on the same state object on every path before the push
            src = strsrc(e.args[0])

            def tr(st, ev, _e=e, _src=src):
                if ev.kind == 'call' and ev.q.endswith('::add_entity_value') and ev.args and strsrc(ev.args[0]) == _src and \
                        (ev.obj == _e.obj or state_name(A, f, ev.obj) == T):
                    return ('decl', st[1])
                if ev.kind == 'call' and ev.node is _e.node:
                    return (st[0], st[1] or st[0] != 'decl')
                return None
            exits = abstract_run(A, f, ('none', False), tr)
            lazy = not any(s[1] for k in exits for s in exits[k])
            if lazy:
                ctx.check(True, 'R2', '%s: value %s of %s is declared just before it is used' % (short, ex.pretty(src), T), where(f, e.line), key='R2|%s|%s %s' % (short, T, val or ex.pretty(src)))
                continue
            if val is None:
                if f['file'].endswith('instr_interface.cpp'):
                    ctx.holds('R2', '%s: value named by the user program (public TRACE_* API); unknown names are refused by get_entity_value' % short, where(f, e.line))
                else:
                    ctx.violation('R2', '%s: value %s of %s is not a literal and is not declared before use' % (short, ex.pretty(src), T), where(f, e.line), '', key='R2|%s|%s %s' % (short, T, ex.pretty(src)))
                continue
            ds = decl.get(T, {}).get(val, [])
            good = [d for d in ds if d[2] and d[1] <= facts]
            detail = ''
            if not ds:
                detail = 'no add_entity_value("%s") on a %s state type: pushing it raises TracingError' % (val, T)
            elif not good:
                detail = 'declared in %s under %s, used under %s' % (ds[0][0]['q'].replace(NS, ''), sorted(ds[0][1]), sorted(facts))
            ctx.check(bool(good), 'R2', '%s: value "%s" of %s is declared where the type or its container is created' % (short, val, T), where(f, e.line), detail, key='R2|%s|%s %s' % (short, T, val))
    ctx.require(nsites >= 12, 'R2', 'only %d push/set sites found' % nsites)
    ctx.notes.append('%d push site(s) under TRACE_vm_is_enabled() are not decided (option outside the quantifier of the property)' % skipped_vm)


def event_values(ctx, P, A):
    n = 0
    for f in instr_fns(P):
        for e in all_events(A, f):
            if e.kind != 'new':
                continue
            ty = e.nf[1]
            if not (ty.endswith('StateEvent') or ty.endswith('NewEvent')):
                continue
            args = e.nf[2][0][2] if e.nf[2] and e.nf[2][0][0] == 'ctor' else e.nf[2]
            n += 1
            short = f['q'].replace(NS, '')
            if ty.endswith('StateEvent'):
                okc = len(args) >= 5 and args[0][0] == 'call' and args[0][1].endswith('::get_issuer') and args[1] == ('this',)
                kind = repr(args[2]) if len(args) > 2 else ''
                val = args[3] if len(args) > 3 else None
                pop = 'PopState' in kind
                okv = val is not None and ((val[0] == 'call' and val[1].endswith('::get_entity_value') and val[2] == ('this',)) or (pop and val in (('null',), ('nullptr',), ('int', 0))))
                ctx.check(okc and okv, 'R2', '%s: the event is issued for (get_issuer(), this) with a value looked up by get_entity_value' % short, where(f, e.line),
                          'value argument %s' % (ex.pretty(val) if val else '?'), key='R2|%s|event value' % short)
            else:
                val = args[3] if len(args) > 3 else None
                okv = val is not None and val[0] == 'call' and val[1].endswith('::get_entity_value')
                ctx.check(okv, 'R2', '%s: the mark value is looked up by get_entity_value' % short, where(f, e.line), '', key='R2|%s|event value' % short)
    ctx.require(n >= 5, 'R2', 'only %d event constructions found' % n)
    gv = P.fn(NS + 'ValueType::get_entity_value')
    v = A.view(gv)
    sh = set()
    for p in v.paths():
        evs = v.path_events(p)
        miss = [e.pol for e in evs if e.kind == 'branch' and e.atom[0] == 'bin' and e.atom[1] == '==' and '::end' in repr(e.atom)]
        sh.add((tuple(miss[:1]), p.exit))
    ctx.check(((True,), 'throw') in sh and all(s[1] == 'throw' for s in sh if s[0] == (True,)) and any(s[0] == (False,) and s[1] in ('return', 'end') for s in sh), 'R2',
              'get_entity_value refuses (throws) a value that was not declared', where(gv), 'path shapes %s' % sorted(sh, key=repr), key='R2|get_entity_value|unknown refused')


def creation_signals(ctx, P, A):
    want = [(NS + 'Container::Container', 'children_'), (NS + 'NetZoneContainer::NetZoneContainer', 'children_'), (NS + 'Type::Type', 'children_'), (NS + 'EntityValue::EntityValue', None),
            (NS + 'LinkType::LinkType', None)]
    for q, reg in want:
        fs = [f for f in P.fns_named(q) if f.get('blocks')]
        if len(fs) != 1:
            ctx.unrecognised('R2', '%s: %d definitions' % (q, len(fs)))
            continue
        f = fs[0]

        def tr(st, e, _reg=reg):
            registered, fired = st
            if _reg and e.kind == 'call' and e.obj is not None and _reg in repr(e.obj) and e.q.rsplit('::', 1)[-1] in ('try_emplace', 'emplace', 'insert', 'operator[]'):
                return (True, fired)
            if e.kind == 'call' and e.q.endswith('::operator()') and e.obj is not None and 'on_creation' in repr(e.obj):
                return (registered, True)
            return None
        exits = abstract_run(A, f, (reg is None, False), tr)
        sts = exits['normal']
        bad = [s for s in sts if s[0] and not s[1]]
        ctx.check(bool(sts) and not bad and any(s[1] for s in sts), 'R2', '%s: every path that registers the object fires on_creation (the definition line)' % q.replace(NS, '').rsplit('::', 1)[0], where(f),
                  'exit states (registered, fired) %s' % sorted(sts), key='R2|%s|on_creation' % q.replace(NS, '').rsplit('::', 1)[0])
    # the Paje writer connects a direct (unbuffered) writer to each creation signal
    opc = [f for f in P.fns.values() if f['q'].endswith('on_platform_creation') and f.get('blocks') and f['file'].endswith('instr_config.cpp')]
    if len(opc) != 1:
        ctx.unrecognised('R2', 'on_platform_creation: %d definitions' % len(opc))
        return
    conn = {}
    for e in all_events(A, opc[0]):
        if e.kind == 'call' and e.q.endswith('::on_creation_cb') and e.args:
            cb = [t for t in ex.subterms(e.args[0]) if t[0] in ('fnref', 'var', 'global') or (t[0] == 'un' and t[1] == '&')]
            conn[e.q.replace(NS, '').rsplit('::', 1)[0]] = repr(e.args[0])
    need = {'Container': 'on_container_creation_paje', 'EntityValue': 'on_entity_value_creation', 'Type': 'on_type_creation', 'LinkType': 'on_link_type_creation'}
    for cls, cbn in sorted(need.items()):
        okc = cls in conn and cbn in conn[cls]
        w = [f for f in P.fns.values() if f['q'].endswith(cbn) and f.get('blocks')]
        direct = bool(w) and any(e.kind == 'call' and e.q.endswith('operator<<') and 'tracing_file' in repr(e.nf) for e in all_events(A, w[0]))
        ctx.check(okc and direct, 'R2', '%s::on_creation is connected to %s, which writes the definition to the trace file at once' % (cls, cbn), where(opc[0]), '', key='R2|%s|definition writer' % cls)


# ---- R3 -----------------------------------------------------------------------------------------------------------------------------------
def is_ts(t, owner=None):
    return t is not None and t[0] == 'field' and t[2].endswith('::timestamp_') and (owner is None or t[1] == owner)


def is_ts_cmp(a):
    return a[0] == 'bin' and a[1] in ('<', '<=', '>', '>=') and 'timestamp_' in repr(a)


def ordering(ctx, P, A):
    ctx.rule('R3', 'the buffer is sorted by a stable insertion and dumped in order; unbuffered lines flush what must precede them; events are dated with the current clock', 10)
    ins = P.fn(NS + 'PajeEvent::insert_into_buffer')
    v = A.view(ins)
    heads = [h for h in v.loop_heads() if 'rend' in repr(v.cond_atom(h['id']))]
    okins, detail = False, 'scan loop not found'
    if len(heads) == 1:
        h = heads[0]
        body = cg.natural_loop(v, h['id'])
        init = [e for e in all_events(A, ins) if e.kind == 'call' and e.q.endswith('::operator=') and e.args and e.args[0][0] == 'call' and e.args[0][1].endswith('::rbegin') and 'buffer' in repr(e.args[0][2])] + \
               [e for e in all_events(A, ins) if e.kind == 'assign' and e.rhs[0] == 'call' and e.rhs[1].endswith('::rbegin') and 'buffer' in repr(e.rhs)]
        it = init[0].obj if init and init[0].kind == 'call' else (init[0].lhs if init else None)
        brk = None
        for b in body:
            ap = v.cond_atom(b)
            if b == h['id'] or ap is None or v.is_log_branch(b):
                continue
            ss = v.blocks[b]['s']
            for i, tgt in enumerate(ss):
                # an edge whose target eventually leaves the loop without going back to the head: the break
                if tgt is not None and tgt not in body or (tgt is not None and v.blocks[tgt].get('t', {}).get('k') == 'BreakStmt'):
                    brk = (ap[0], (i == 0) == ap[1])
        if brk is None:
            detail = 'break condition not found'
        else:
            a, pol = brk
            cur = [e.lhs for e in all_events(A, ins) if e.kind == 'assign' and e.rhs[0] == 'call' and e.rhs[1].endswith('::operator*') and e.rhs[2] == it]
            rel = None
            if a[0] == 'bin' and a[1] in ('<', '<=', '>', '>='):
                l, r = a[2], a[3]
                op = a[1]
                if is_ts(r) and r[1] in cur and is_ts(l, ('this',)):
                    l, r = r, l
                    op = {'<': '>', '<=': '>=', '>': '<', '>=': '<='}[op]
                if is_ts(l) and l[1] in cur and is_ts(r, ('this',)):
                    if not pol:
                        op = {'<': '>=', '<=': '>', '>': '<=', '>=': '<'}[op]
                    rel = op
            insert = [e for e in all_events(A, ins) if e.kind == 'call' and e.q.endswith('::insert') and 'buffer' in repr(e.obj)]
            okpos = len(insert) == 1 and insert[0].args[0][0] == 'call' and insert[0].args[0][1].endswith('::base') and insert[0].args[0][2] == it and insert[0].args[1] == ('this',) and \
                v.blocks[insert[0].bid if insert[0].bid is not None else ins['elems'][insert[0].eid]['b']]['id'] not in body
            okins = rel == '<=' and okpos and it is not None
            detail = 'scan stops at the first buffered event with timestamp %s the new one; insertion after it: %s' % (rel, okpos)
    if not heads:
        # no scan loop: a binary search over the buffer.  upper_bound (first event strictly later) keeps equal dates in generation order, lower_bound
        # (first event not earlier) puts the new event *before* the buffered events of the same date: a pop could then precede its push
        evs_i = list(all_events(A, ins))
        bs = [e for e in evs_i if e.kind == 'call' and e.q.split('<')[0] in ('std::upper_bound', 'std::lower_bound') and 'buffer' in repr(e.args[:2])]
        insert = [e for e in evs_i if e.kind == 'call' and e.q.endswith('::insert') and 'buffer' in repr(e.obj)]
        if len(bs) == 1 and len(insert) == 1:
            posv = [e.lhs for e in evs_i if e.kind == 'assign' and e.rhs == bs[0].nf]
            at_pos = bool(posv) and insert[0].args[0] == posv[0] and insert[0].args[1] == ('this',)
            okins = bs[0].q.split('<')[0] == 'std::upper_bound' and at_pos
            detail = 'binary search with %s, insertion at the position found: %s%s' % (bs[0].q.split('<')[0], at_pos, '' if okins else ' - the new event goes before the buffered events of the same date')
            ctx.check(okins, 'R3', 'insert_into_buffer: sorted and stable insertion (equal dates keep their generation order)', where(ins, bs[0].line), detail, key='R3|insert_into_buffer|stable sorted insertion')
        else:
            ctx.unrecognised('R3', 'insert_into_buffer: neither the backward scan nor a binary search over the buffer')
    else:
        ctx.check(okins, 'R3', 'insert_into_buffer: scan from the back, stop at the first event not later (<=), insert right after it (sorted and stable: equal dates keep their order)', where(ins), detail,
                  key='R3|insert_into_buffer|stable sorted insertion')
    # dumping in buffer order
    for q in (NS + 'dump_buffer', NS + 'dump_buffer_before'):
        f = P.fn(q)
        vv = A.view(f)
        prints = [e for e in all_events(A, f) if e.kind == 'call' and e.q.endswith('::print')]
        okp = bool(prints)
        for e in prints:
            # the receiver is the element under a forward iteration that starts at buffer.begin()
            r = e.obj
            while r[0] in ('un', 'cast', 'conv') or (r[0] == 'call' and r[1].endswith('::operator*')):
                r = r[2]
            defs = [x.rhs for x in all_events(A, f) if x.kind == 'assign' and x.lhs == r]
            src = repr(defs) + repr(r)
            fwd = [x for x in all_events(A, f) if x.kind == 'assign' and x.rhs[0] == 'call' and x.rhs[1].endswith('::begin') and 'buffer' in repr(x.rhs) or
                   (x.kind == 'assign' and x.rhs == ('global', NS + 'buffer'))]
            okp = okp and bool(fwd) and not any(x.kind == 'call' and x.q.endswith('::rbegin') for x in all_events(A, f))
        ctx.check(okp, 'R3', '%s prints the buffered events in buffer order (forward from begin)' % q.replace(NS, ''), where(f), '%d print site(s)' % len(prints), key='R3|%s|in order' % q.replace(NS, ''))
    # what is printed is exactly what leaves the buffer: a partial dump advances its cursor once per printed event and erases [begin, cursor); a full dump clears
    for q in (NS + 'dump_buffer', NS + 'dump_buffer_before'):
        f = P.fn(q)
        vv = A.view(f)
        shapes = set()
        for p in vv.paths(max_visits=2):
            if p.exit in ('noreturn', 'cut', 'throw'):
                continue
            evs = vv.path_events(p)
            np_ = len([e for e in evs if e.kind == 'call' and e.q.endswith('::print')])
            if np_ == 0:
                continue
            curs = [e.lhs for e in evs if e.kind == 'assign' and e.lhs[0] == 'var' and e.rhs[0] == 'call' and e.rhs[1].endswith('::begin') and 'buffer' in repr(e.rhs) and not e.lhs[2].startswith('__')]
            cur = curs[0] if curs else None
            ninc = len([e for e in evs if cur is not None and ((e.kind == 'incdec' and e.lhs == cur) or (e.kind == 'call' and e.q.endswith('::operator++') and e.obj == cur))])
            er = [e for e in evs if e.kind == 'call' and e.q.endswith('::erase') and 'buffer' in repr(e.obj)]
            cl = [e for e in evs if e.kind == 'call' and e.q.endswith('::clear') and 'buffer' in repr(e.obj)]
            full = any(e.kind == 'branch' and 'force' in repr(e.atom) for e in evs) and cl and not er and not any(e.kind == 'branch' and is_ts_cmp(e.atom) for e in evs)
            partial = len(er) == 1 and not cl and cur is not None and ninc == np_ and len(er[0].args) == 2 and er[0].args[1] == cur and er[0].args[0][0] == 'call' and er[0].args[0][1].endswith('::begin')
            shapes.add('full' if full else 'partial' if partial else 'bad: %d printed, cursor advanced %d time(s), erase x%d, clear x%d' % (np_, ninc, len(er), len(cl)))
        bad = sorted(x for x in shapes if x.startswith('bad'))
        ctx.check(bool(shapes) and not bad, 'R3', '%s: the events printed are exactly the events removed from the buffer' % q.replace(NS, ''), where(f),
                  bad[0] + ': events are printed twice, or dropped without being printed' if bad else 'path shapes %s' % sorted(shapes), key='R3|%s|printed = removed' % q.replace(NS, ''))
    dbb = P.fn(NS + 'dump_buffer_before')
    vv = A.view(dbb)
    lim = lib.parm_i(dbb, 0)
    okl = False
    for hh in vv.loop_heads():
        for b in cg.natural_loop(vv, hh['id']) | {hh['id']}:
            ap = vv.cond_atom(b)
            if ap and ap[1]:
                conj = [ap[0]]
                while conj:
                    a_ = conj.pop()
                    if a_[0] == 'truthy':
                        a_ = a_[1]
                    if a_[0] == 'bin' and a_[1] == '&&':
                        conj += [a_[2], a_[3]]
                    elif a_[0] == 'bin' and a_[1] in ('<', '<=') and is_ts(a_[2]) and a_[3] == lim:
                        okl = True
    ctx.check(okl, 'R3', 'dump_buffer_before(t) dumps the events older than t and stops at the first later one', where(dbb), '', key='R3|dump_buffer_before|bound')
    # unbuffered timestamped writers
    cc = [f for f in P.fns.values() if f['q'].endswith('on_container_creation_paje') and f.get('blocks')]
    if len(cc) == 1:
        f = cc[0]

        def tr(st, e):
            flushed, bad = st
            if e.kind == 'call' and e.q == NS + 'dump_buffer_before' and e.args:
                return (e.args[0], bad)
            if e.kind == 'call' and e.q.endswith('operator<<') and 'tracing_file' in repr(e.nf) and not flushed:
                return (flushed, True)
            return None
        exits = abstract_run(A, f, (None, False), tr)
        sts = exits['normal']
        clock = [e.lhs for e in all_events(A, f) if e.kind == 'assign' and e.rhs[0] == 'call' and e.rhs[1] in ('simgrid_get_clock', 'simgrid::s4u::Engine::get_clock')]
        streamed = [e for e in all_events(A, f) if e.kind == 'call' and e.q.endswith('operator<<') and e.args and clock and e.args[-1] == clock[0]]
        ok = bool(sts) and not any(s[1] for s in sts) and all(s[0] is not None and clock and s[0] == clock[0] for s in sts) and bool(streamed)
        ctx.check(ok, 'R3', 'on_container_creation_paje dumps the buffered events older than the creation date before writing the (unbuffered) creation line with that date', where(f),
                  'exit states (flushed up to, written unflushed) %s' % sorted(sts, key=repr), key='R3|on_container_creation_paje|flush first')
    else:
        ctx.unrecognised('R3', 'on_container_creation_paje: %d definitions' % len(cc))
    # event dates
    ok_src = ('simgrid_get_clock', 'simgrid::s4u::Engine::get_clock')
    sinks = {NS + 'VariableType::set_event': 0, NS + 'VariableType::add_event': 0, NS + 'VariableType::sub_event': 0, NS + 'VariableType::instr_event': 0}
    work = []
    for f in [g for g in sorted(P.fns.values(), key=lambda f_: f_['key']) if g.get('blocks')]:
        for e in all_events(A, f):
            if e.kind == 'call' and e.q in sinks and e.args:
                work.append((f, e, e.args[sinks[e.q]], (e.q.replace(NS, ''),)))
            if e.kind == 'call' and e.q.endswith('PajeEvent::PajeEvent') and len(e.args or ()) >= 3 and f['q'].startswith(NS) and not f['q'].startswith(NS + 'PajeEvent'):
                work.append((f, e, e.args[2], ('PajeEvent',)))
            if e.kind == 'new' and e.nf[1].endswith('NewEvent') and e.nf[2]:
                a = e.nf[2][0][2] if e.nf[2][0][0] == 'ctor' else e.nf[2]
                work.append((f, e, a[0], ('NewEvent',)))
    callers = {}
    for f in [g for g in P.fns.values() if g.get('blocks')]:
        for e in all_events(A, f):
            if e.kind == 'call':
                callers.setdefault(e.q, []).append((f, e))
    nleaves = 0
    seen = set()

    def subst(t, m):
        if t in m:
            return m[t]
        if isinstance(t, tuple):
            return tuple(subst(x, m) for x in t)
        return t
    clockq = ok_src
    while work:
        f, e, t, chain = work.pop()
        k = (f['key'], e.line, repr(t))
        if k in seen or len(chain) > 6:
            continue
        seen.add(k)
        short = f['q'].replace(NS, '').replace('simgrid::', '')
        if '<lambda' in short:
            short = short.split('::<lambda')[0] + '::<lambda:%d>' % f['line']
        lf = lib.linear_form(t)
        if lf is None:
            nleaves += 1
            ctx.check(False, 'R3', '%s: event dated %s' % (short, ex.pretty(t)), where(f, e.line), 'date is not the current clock', key='R3|%s|date %s' % (short, ex.pretty(t)))
            continue
        leaves = list(lf[0])
        locs = [x for x in leaves if x[0] == 'var' and x[1] == 'local']
        if locs:
            m = {}
            for x in locs:
                defs = [y.rhs for y in all_events(A, f) if y.kind == 'assign' and y.lhs == x]
                if len(defs) == 1:
                    m[x] = defs[0]
            if len(m) == len(locs):
                work.append((f, e, subst(t, m), chain))
            else:
                ctx.unrecognised('R3', '%s: date %s uses a local with several definitions' % (short, ex.pretty(t)))
            continue
        parms = [x for x in leaves if x[0] == 'var' and x[1] == 'parm']
        if parms:
            if f['q'].endswith('instr_user_variable'):
                nleaves += 1
                ctx.holds('R3', '%s: date chosen by the user program through the public TRACE_*_with_time API (not decided)' % short, where(f, e.line))
                continue
            if f['q'].rsplit('::', 1)[-1] in ('VariableEvent', 'NewEvent', 'PajeEvent'):
                continue      # constructors: their callers are the `new` sites and the VariableType sinks, which are sinks themselves
            cs = callers.get(f['q'], [])
            if not cs:
                ctx.unrecognised('R3', '%s: date parameter %s has no visible caller' % (short, ex.pretty(parms[0])))
                continue
            for cf, ce in cs:
                m = {}
                for i, p_ in enumerate(f['params']):
                    if i < len(ce.args):
                        m[lib.parm_i(f, i)] = ce.args[i]
                work.append((cf, ce, subst(t, m), chain + (short,)))
            continue
        nleaves += 1
        coeffs = {x: c for x, c in lf[0].items()}
        is_clock = len(coeffs) == 1 and lf[1] == 0 and all(x[0] == 'call' and x[1] in clockq and c == 1 for x, c in coeffs.items())
        via = (' (through %s)' % ' <- '.join(reversed(chain))) if len(chain) > 1 else ''
        if is_clock:
            ctx.holds('R3', '%s: event dated with the current clock%s' % (short, via), where(f, e.line))
        elif not coeffs and lf[1] == 0:
            ctx.check(f['q'].endswith('on_simulation_start'), 'R3', '%s: event dated 0%s' % (short, via), where(f, e.line),
                      '' if f['q'].endswith('on_simulation_start') else 'a constant date is only right in on_simulation_start (run once at date 0); elsewhere it is earlier than lines already written',
                      key='R3|%s|date 0' % short)
        else:
            backdated = any(x[0] == 'call' and x[1].endswith('::get_last_update') for x in coeffs)
            ctx.check(False, 'R3', '%s: event dated %s%s' % (short, ex.pretty(t), via), where(f, e.line),
                      ('the date of the last update of the action is in the past: once a container creation/destruction has flushed the buffer, this event is written after later ones '
                       '(timestamps go backwards)') if backdated else 'date is not the current clock', key='R3|%s|date %s' % (short, ex.pretty(t)))
    ctx.require(nleaves >= 8, 'R3', 'only %d event dates resolved' % nleaves)


# ---- R4 ---------------------------------------------------------------------------------------------------------------------------------------
def lifetime(ctx, P, A):
    ctx.rule('R4', 'a destroyed container leaves the name table and its parent, and the buffer is flushed before its destruction line; only the owner deletes containers', 3)
    d = [f for f in P.fns.values() if f['q'] == NS + 'Container::~Container' and f.get('blocks')]
    if len(d) != 1:
        raise AnalysisBroken('Container::~Container: %d definitions' % len(d))
    d = d[0]

    def tr(st, e):
        erased, stamped, dumped, bad = st
        if e.kind == 'call' and e.q.endswith('::erase') and 'all_containers_' in repr(e.obj):
            return (True, stamped, dumped, bad)
        if e.kind == 'assign' and e.lhs == ('global', NS + 'last_timestamp_to_dump') or (e.kind == 'assign' and 'last_timestamp_to_dump' in repr(e.lhs)):
            return (erased, 'simgrid_get_clock' in repr(e.rhs), dumped, bad)
        if e.kind == 'call' and e.q == NS + 'dump_buffer':
            return (erased, stamped, e.args[0] == ('bool', True), bad)
        if e.kind == 'call' and e.q.endswith('::operator()') and e.obj is not None and 'on_destruction' in repr(e.obj):
            return (erased, stamped, dumped, bad or not (erased and dumped))
        return None
    exits = abstract_run(A, d, (False, False, False, False), tr)
    sts = exits['normal']
    fired = any(e.kind == 'call' and e.q.endswith('::operator()') and e.obj is not None and 'on_destruction' in repr(e.obj) for e in all_events(A, d))
    ctx.check(bool(sts) and fired and not any(s[3] for s in sts) and all(s[0] and s[2] for s in sts), 'R4', '~Container: unregister from all_containers_, dump_buffer(true), then on_destruction (the destruction line)', where(d),
              'exit states (erased, stamped, dumped, signal too early) %s' % sorted(sts), key='R4|~Container|order')
    rp = P.fn(NS + 'Container::remove_from_parent')
    v = A.view(rp)
    okr = True
    n = 0
    for p in v.paths():
        if p.exit in ('noreturn', 'cut'):
            continue
        evs = v.path_events(p)
        has_parent = [e.pol for e in evs if e.kind == 'branch' and 'parent_' in repr(e.atom)]
        er = [i for i, e in enumerate(evs) if e.kind == 'call' and e.q.endswith('::erase') and 'children_' in repr(e.obj) and 'name_' in repr(e.args)]
        de = [i for i, e in enumerate(evs) if e.kind == 'delete' and e.nf[1] == ('this',)]
        n += 1
        okr = okr and len(de) == 1 and (not has_parent or not has_parent[0] or (len(er) == 1 and er[0] < de[0]))
    ctx.check(okr and n >= 2, 'R4', 'remove_from_parent: erase from the parent\'s children_, then delete this', where(rp), '', key='R4|remove_from_parent|unlink then delete')
    # who may delete a container
    owners = {NS + 'Container::remove_from_parent', NS + 'Container::~Container'}
    others = []
    nd = 0
    for f in [g for g in P.fns.values() if g.get('blocks')]:
        for e in all_events(A, f):
            if e.kind == 'delete' and e.node is not None:
                ty = f.tstr(e.node['a'][0].get('t', -1)) if e.node.get('a') else ''
                if 'Container' in ty and 'instr' in ty:
                    nd += 1
                    if f['q'] not in owners and not f['q'].endswith('on_simulation_end'):
                        others.append((f, e.line))
    ctx.check(not others and nd >= 2, 'R4', 'containers are deleted only by remove_from_parent, by their parent\'s destructor and at the end of the simulation', where(others[0][0], others[0][1]) if others else 'src/instr',
              'deleted in %s' % [o[0]['q'] for o in others] if others else '%d delete sites' % nd, key='R4|Container|who may delete')


# ---- R5 --------------------------------------------------------------------------------------------------------------------------------------
SIGNAL_PAIRS = [('Actor::on_suspend_cb', 'Actor::on_resume_cb'), ('Actor::on_sleep_cb', 'Actor::on_wake_up_cb'), ('Exec>::on_start_cb', 'Exec>::on_completion_cb'),
                ('VirtualMachine::on_start_cb', 'VirtualMachine::on_started_cb'), ('VirtualMachine::on_suspend_cb', 'VirtualMachine::on_resume_cb')]
COMM_PUSH = ('Comm::on_send_cb', 'Comm::on_recv_cb', 'Comm>::on_start_cb')
COMM_POP = 'Comm>::on_completion_cb'


def signals(ctx, P, A, lam):
    ctx.rule('R5', 'start signals fire at most once per start; states pushed from a start-like signal are popped from the matching completion-like signal', 6)
    for q in ('simgrid::s4u::Comm::do_start', 'simgrid::s4u::Exec::do_start'):
        f = P.fn(q)
        FIELD = lib.this_field('simgrid::s4u::Activity::detached_')

        def tr(st, e):
            n, det = st
            if e.kind == 'branch' and e.atom == ('truthy', FIELD):
                if det is not None and det != e.pol:
                    return set()
                return (n, e.pol)
            if e.kind == 'assign' and e.lhs == FIELD:
                return (n, None)
            if e.kind == 'call' and e.q.endswith('::fire_on_start') and e.obj == ('this',):
                return (min(n + 1, 2), det)
            return None
        exits = abstract_run(A, f, (0, None), tr)
        sts = exits['normal']
        ctx.check(bool(sts) and max(s[0] for s in sts) == 1, 'R5', '%s fires on_start at most once on every path, and does fire it' % q.replace('simgrid::s4u::', ''), where(f),
                  'exit states (times fired, detached_) %s' % sorted(sts, key=repr), key='R5|%s|on_start once' % q.replace('simgrid::s4u::', ''))
    dc = P.fn(NS + 'define_callbacks')
    regs = {}       # signal suffix -> list of (callback fn, guard facts)
    for e in all_events(A, dc):
        if e.kind == 'call' and e.q.endswith('_cb') and e.args:
            cb = [t for t in ex.subterms(e.args[0]) if t[0] == 'lambda']
            if cb and cb[0][1] in P.fns:
                sig = e.q.replace('simgrid::s4u::', '').replace('Activity_T<simgrid::s4u::', '')
                regs.setdefault(sig, []).append((P.fns[cb[0][1]], frozenset(trace_facts(A, dc, e.node))))

    def effects(f, subst=None):
        out = []
        for e in all_events(A, f):
            if e.kind == 'call' and (e.q.endswith('StateType::push_event') or e.q.endswith('StateType::pop_event')):
                T = state_name(A, f, e.obj)
                c = e.obj
                while c[0] == 'call' and not c[1].endswith('Container::by_name'):
                    c = c[2]
                if c[0] == 'var' and c[1] == 'local':
                    dd = [x.rhs for x in all_events(A, f) if x.kind == 'assign' and x.lhs == c]
                    c = dd[0] if len(dd) == 1 else c
                    while c[0] == 'call' and not c[1].endswith('Container::by_name'):
                        c = c[2]
                import re as _re
                cont = ex.pretty(c)
                if f['params'] and f['params'][0]['n']:
                    cont = _re.sub(r'\b%s\b' % _re.escape(f['params'][0]['n']), '$0', cont)
                for a_, b_ in (subst or {}).items():
                    cont = cont.replace(a_, b_)
                out.append(('push' if 'push' in e.q else 'pop', T, cont))
        return sorted(out)
    npairs = 0
    for a, b in SIGNAL_PAIRS:
        ra = [x for s, l in regs.items() if s.endswith(a) for x in l]
        rb = [x for s, l in regs.items() if s.endswith(b) for x in l]
        for fa, ga in ra:
            if ('TRACE_vm_is_enabled', True) in ga:
                continue
            match = [fb for fb, gb in rb if gb == ga]
            npairs += 1
            pa = effects(fa)
            ok = len(match) == 1 and [(t, c) for k, t, c in pa if k == 'push'] == [(t, c) for k, t, c in effects(match[0]) if k == 'pop'] and bool(pa) and \
                not [x for x in pa if x[0] == 'pop'] and not [x for x in (effects(match[0]) if match else []) if x[0] == 'push']
            ctx.check(ok, 'R5', '%s pushes what %s pops (same state type, same container expression)' % (a.replace('>', ''), b.replace('>', '')), where(fa),
                      'pushed %s; popped %s' % (pa, effects(match[0]) if match else 'no matching registration'), key='R5|%s|%s' % (a.replace('>', '').replace('_cb', ''), sorted(ga)))
    ps = []
    for s_ in COMM_PUSH:
        for fa, ga in [x for s, l in regs.items() if s.endswith(s_) for x in l]:
            sub = {'*Actor::self()': '*$0.get_sender()'} if 'on_send' in s_ else ({'*Actor::self()': '*$0.get_receiver()'} if 'on_recv' in s_ else {})
            ps += [(t, c) for k, t, c in effects(fa, sub) if k == 'push']
    pc = [x for s, l in regs.items() if s.endswith(COMM_POP) for x in l]
    pops = [(t, c) for k, t, c in effects(pc[0][0])] if len(pc) == 1 else []
    ctx.check(bool(ps) and sorted(ps) == sorted(pops), 'R5', 'Comm: on_send / on_recv / on_start push what on_completion pops (sender, receiver, source host, destination host)', where(pc[0][0]) if pc else where(dc),
              'pushed %s; popped %s' % (sorted(ps), sorted(pops)), key='R5|Comm|push pop')
    ctx.require(npairs >= 3, 'R5', 'only %d signal pairs found' % npairs)
