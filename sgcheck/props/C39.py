"""C39 — Declared-independent transitions commute: symmetry and table/cast agreement (DESIGN.md 3, C39)."""
import glob

from .. import ex, lib
from ..core import where
from ..ir import AnalysisBroken, REPO

TR = 'simgrid::mc::Transition'
TT = TR + '::Type'
DA = 'simgrid::mc::DependencyAction'
EXPLANATION = ('The compile-time dependency LUT (read from clang\'s constant evaluator) is checked against the dispatcher: equal actors '
               'are dependent, ANY transitions are unwrapped, operands are ordered so that only the upper triangle is read; for each of '
               'the 465 cells (i <= j) the classes to which t1/t2 are cast in the selected case are the classes deserialize_transition '
               'builds for types i/j; every action reachable on the diagonal is invariant under swapping t1 and t2; every conditional case is tabulated as a '
               'boolean function of its comparisons (like kinds, t1 against t2, monotone, timeouts sufficient); six semantically conflicting pairs are not ALWAYS_INDEP.')


# queueing requests that the checker declares independent on purpose (frozen, one reason each)
R5_EXCEPT = {'BARRIER_ASYNC_LOCK': 'arrivals at a barrier commute: everybody is released at once, only the number of arrivals matters',
             'CONDVAR_ASYNC_LOCK': 'two waits on one condition variable need the mutex in turn; no failing interleaving could be exhibited '
                                   '(tools/triage/c39_condvar_probe.cpp: reductions none and dpor agree), so the declared independence is left alone'}

# pairs whose two orders differ when they name the same object: by the semantics of the object, not of this code (frozen, one reason each)
MUST_CONFLICT = {
    ('MUTEX_TRYLOCK', 'MUTEX_TRYLOCK'): 'the first try-lock of a free mutex succeeds and makes the second fail',
    ('MUTEX_ASYNC_LOCK', 'MUTEX_TRYLOCK'): 'a try-lock succeeds before the lock request of another actor on a free mutex and fails after it',
    ('MUTEX_TRYLOCK', 'MUTEX_UNLOCK'): 'a try-lock fails before the owner unlocks and succeeds after',
    ('MUTEX_UNLOCK', 'MUTEX_WAIT'): 'the unlock hands the mutex to the next waiter: it enables that wait',
    ('MUTEX_TEST', 'MUTEX_UNLOCK'): 'the test of a queued lock request answers no before the unlock and yes after',
    ('SEM_UNLOCK', 'SEM_WAIT'): 'the release grants the pending acquisition: it enables that wait',
}


def canon(t):
    """canonical form modulo commutativity of ==, &&, ||"""
    if not isinstance(t, tuple):
        return t
    t = tuple(canon(x) if isinstance(x, tuple) else x for x in t)
    if t and t[0] == 'bin' and t[1] in ('==', '!=', '&&', '||') and len(t) == 4:
        a, b = sorted([t[2], t[3]], key=repr)
        return ('bin', t[1], a, b)
    return t


def subst(t, m):
    if not isinstance(t, tuple):
        return t
    if t in m:
        return m[t]
    return tuple(subst(x, m) if isinstance(x, tuple) else x for x in t)


def run(ctx):
    units = sorted(glob.glob(REPO + '/src/mc/transition/Transition*.cpp'))
    P = ctx.load([u[len(REPO) + 1:] for u in units])
    A = ctx.analyzer
    types = lib.enum_values(P, TT)
    tname = {v: k for k, v in types.items()}
    acts = lib.enum_values(P, DA)
    aname = {v: k for k, v in acts.items()}
    c = P.consts.get('simgrid::mc::dependency_table')
    if c is None:
        raise AnalysisBroken('dependency_table constant not found')
    tab = c['v']
    while isinstance(tab, list) and len(tab) == 1 and isinstance(tab[0], list):
        tab = tab[0]
    n = len(tab)
    rows = []
    for r in tab:
        while isinstance(r, list) and len(r) == 1 and isinstance(r[0], list):
            r = r[0]
        rows.append(r)
    if n != types['UNKNOWN'] + 1 or any(len(r) != n for r in rows):
        raise AnalysisBroken('dependency_table shape %dx%s does not match the %d transition types' % (n, set(len(r) for r in rows), types['UNKNOWN'] + 1))

    dd = P.fn(TR + '::dispatch_depends')
    v = A.view(dd)

    # ---- R2 dispatcher prologue ---------------------------------------------------------------------------------------------------
    ctx.rule('R2', 'dispatch_depends: equal actors are dependent; ANY transitions are unwrapped; the LUT is indexed [t1.type][t2.type] with t1.type <= t2.type (swap otherwise)', 3)
    paths = v.paths(max_paths=50000)
    ctx.count('paths', len(paths))
    T1 = T2 = None
    n_idx = 0
    sig_seen = set()
    for p in paths:
        if p.exit in ('noreturn', 'cut', 'throw'):
            continue
        evs = v.path_events(p)
        decls = [e for e in evs if e.kind == 'assign' and e.decl and e.lhs[0] == 'var']
        if len(decls) < 2:
            continue
        T1, T2 = decls[0].lhs, decls[1].lhs
        aid_eq = lib.eq_atom(('field', T1, TR + '::aid_'), ('field', T2, TR + '::aid_'))
        same = [e.pol for e in evs if e.kind == 'branch' and e.atom == aid_eq]
        idx = [e for e in evs if e.kind == 'assign' and e.rhs[0] == 'call' and e.rhs[1].endswith('::operator[]') and 'dependency_table' in repr(e.rhs)]
        rets = [e for e in evs if e.kind == 'return']
        if same[:1] == [True]:
            sig = ('same',)
            if sig not in sig_seen:
                sig_seen.add(sig)
                ctx.check(rets and rets[0].val == ('bool', True) and not idx, 'R2', 'same actor => dependent, before any table access', where(dd), '', key='R2|dispatch|same actor')
            continue
        if not idx:
            continue
        n_idx += 1
        e = idx[0]
        inner = e.rhs[2]
        want_outer = ('cast', 'unsigned long', ('field', T2, TR + '::type_'))
        want_inner = ('cast', 'unsigned long', ('field', T1, TR + '::type_'))
        ok_index = e.rhs[3] == (want_outer,) and inner[0] == 'call' and inner[3] == (want_inner,)
        # ordering: last decision on (t1.type <= t2.type) before the index, and whether a swap followed
        le = ('bin', '<=', ('field', T1, TR + '::type_'), ('field', T2, TR + '::type_'))
        lt = ('bin', '<', ('field', T2, TR + '::type_'), ('field', T1, TR + '::type_'))
        ordered = None
        swapped = False
        anyfacts = {}
        for x in evs:
            if x is e:
                break
            if x.kind == 'branch' and x.atom == le:
                ordered = x.pol
            if x.kind == 'branch' and x.atom == lt:
                ordered = not x.pol
            if x.kind == 'call' and x.q == 'std::swap' and set(x.args) == {T1, T2}:
                swapped = True
            if x.kind == 'branch' and x.atom[0] == 'bin' and x.atom[1] == '==' and x.atom[3][0] == 'enum' and x.atom[3][1] in (TT + '::TESTANY', TT + '::WAITANY'):
                anyfacts[x.atom] = x.pol
            if x.kind == 'assign' and x.lhs in (T1, T2):
                pass
        not_any = all(anyfacts.get(lib.eq_atom(('field', t, TR + '::type_'), ('enum', TT + '::' + k, types[k]))) is False for t in (T1, T2) for k in ('TESTANY', 'WAITANY'))
        sig = (ok_index, ordered, swapped, not_any)
        if sig in sig_seen:
            continue
        sig_seen.add(sig)
        ctx.check(ok_index and ordered is not None and (ordered != swapped) and not_any, 'R2', 'table access: index [t1.type][t2.type]=%s, t1.type<=t2.type tested=%s, swapped=%s, ANY unwrapped=%s' % (ok_index, ordered, swapped, not_any), where(dd, e.line),
                  'the LUT only defines the upper triangle: the access must use the smaller type as row', key='R2|dispatch|ordering')
    ctx.require(n_idx >= 2 and T1 is not None, 'R2', 'table access not recognised')

    # ---- per-case cast classes -------------------------------------------------------------------------------------------------------
    case_info = {}   # action value -> {'t1': set(classes), 't2': set(classes), 'rets': set(canon terms), 'panic': bool}
    for (sw, succs) in v.case_blocks():
        for lab, sb in succs:
            if not lab or lab.get('k') != 'case' or sb is None:
                continue
            av = lab['v']
            info = case_info.setdefault(av, {'t1': set(), 't2': set(), 'rets': set(), 'panic': False})
            for p in v.paths(start=sb):
                if p.exit == 'noreturn':
                    info['panic'] = True
                    continue
                if p.exit in ('cut', 'throw'):
                    continue
                for e in v.path_events(p):
                    if e.kind == 'return':
                        info['rets'].add(e.val)
                        for s_ in ex.subterms(e.val):
                            if s_[0] == 'cast' and s_[2] in (T1, T2):
                                cls = s_[1].replace('const ', '').replace(' *', '').strip()
                                info['t1' if s_[2] == T1 else 't2'].add(cls)
                            if s_[0] == 'call' and s_[1].endswith('::depends') and s_[2] in (T1, T2):
                                info['virt'] = True
    # reader classes per type
    des = P.fn('simgrid::mc::deserialize_transition')
    dv = A.view(des)
    tclass = {}
    for p in dv.paths():
        if p.exit in ('noreturn', 'cut'):
            continue
        evs = dv.path_events(p)
        labs = [e for e in evs if e.kind == 'case']
        ctors = [e for e in evs if e.kind == 'call' and e.q.rsplit('::', 1)[-1].endswith('Transition') and e.q.count('::') >= 3]
        if labs and labs[0].labels and labs[0].labels.get('k') == 'case' and ctors:
            tclass[labs[0].labels['v']] = ctors[-1].q.rsplit('::', 1)[0]
    ctx.require(len(tclass) >= 20, 'R3', 'deserialize_transition: only %d type->class cases recognised' % len(tclass))

    # ---- R3 cells ---------------------------------------------------------------------------------------------------------------------
    ctx.rule('R3', 'for every LUT cell (i <= j): the classes t1/t2 are cast to in the selected case are the classes built for types i/j', 400)
    ctx.rule('R4', 'every action used on the diagonal is symmetric in (t1, t2)', 10)
    for i in range(n):
        for j in range(i, n):
            a = rows[i][j]
            info = case_info.get(a)
            cell = '%s x %s -> %s' % (tname.get(i, i), tname.get(j, j), aname.get(a, a))
            if info is None:
                ctx.violation('R3', cell, where(dd), 'the dispatcher has no case for this action', key='R3|cell|no case %s' % aname.get(a, a))
                continue
            bad = []
            for side, ty in (('t1', i), ('t2', j)):
                for cls in info[side]:
                    have = tclass.get(ty)
                    if have is None:
                        bad.append('%s is cast to %s but type %s is never built by deserialize_transition' % (side, cls.rsplit('::', 1)[-1], tname.get(ty)))
                    elif have != cls and cls not in P.subclasses(have) and have not in P.subclasses(cls):
                        bad.append('%s (type %s, built as %s) is cast to %s' % (side, tname.get(ty), have.rsplit('::', 1)[-1], cls.rsplit('::', 1)[-1]))
                    elif have != cls and have not in P.subclasses(cls):
                        bad.append('%s (type %s, built as %s) is down-cast to %s' % (side, tname.get(ty), have.rsplit('::', 1)[-1], cls.rsplit('::', 1)[-1]))
            ctx.check(not bad, 'R3', cell, where(dd), '; '.join(bad) or 'casts agree (%s / %s)' % (sorted(x.rsplit('::', 1)[-1] for x in info['t1']), sorted(x.rsplit('::', 1)[-1] for x in info['t2'])),
                      key='R3|%s x %s|%s' % (tname.get(i, i), tname.get(j, j), aname.get(a, a)))
            if i == j and not info['panic']:
                sw = {T1: T2, T2: T1}
                sym = all(canon(subst(r, sw)) in set(canon(x) for x in info['rets']) for r in info['rets']) or info.get('virt')
                ctx.check(bool(sym), 'R4', 'diagonal %s -> %s' % (tname.get(i, i), aname.get(a, a)), where(dd), 'case expression %s' % sorted(ex.pretty(r) for r in info['rets'])[:2], key='R4|%s|asymmetric diagonal' % aname.get(a, a))
    # ---- R5 two requests that join the same waiting queue are dependent: their order is the queue order ---------------------------------------------
    ctx.rule('R5', 'X_ASYNC_LOCK x X_ASYNC_LOCK (and send x send, recv x recv on one mailbox): declared independent only when the objects differ', 4)
    sw = {T1: T2, T2: T1}

    ldefs = {}
    for eid in range(len(dd['elems'])):
        for e in v.events_of(eid):
            if e.kind == 'assign' and e.lhs[0] == 'var' and e.lhs[1] == 'local':
                ldefs.setdefault(e.lhs, []).append(e.rhs)
    lmap = {k: d[0] for k, d in ldefs.items() if len(d) == 1}

    def obj_eq(a):
        """+1 if the atom says "same object" (the same getter on t1 and on t2 compared with ==), -1 for !=, else 0"""
        a = subst(subst(a, lmap), lmap)
        if a[0] == 'bin' and a[1] in ('==', '!='):
            if canon(subst(a[2], sw)) == canon(a[3]) and (T1 in ex.subterms(a[2]) or T2 in ex.subterms(a[2])):
                return 1 if a[1] == '==' else -1
        return 0
    n5 = 0
    for i in range(n):
        nm = str(tname.get(i, i))
        if not (nm.endswith('ASYNC_LOCK') or nm in ('COMM_ASYNC_SEND', 'COMM_ASYNC_RECV', 'MESS_ASYNC_PUT', 'MESS_ASYNC_GET')):
            continue
        a = rows[i][i]
        if nm in R5_EXCEPT:
            ctx.holds('R5', '%s x %s -> %s: not decided (%s)' % (nm, nm, aname.get(a, a), R5_EXCEPT[nm]), where(dd))
            n5 += 1
            continue
        sbs = [sb for (sw_, succs) in v.case_blocks() for lab, sb in succs if lab and lab.get('k') == 'case' and lab['v'] == a and sb is not None]
        if not sbs:
            continue
        problems = []
        npaths = 0
        for p in v.paths(start=sbs[0]):
            if p.exit in ('noreturn', 'cut', 'throw'):
                continue
            evs = v.path_events(p)
            differ = any(e.kind == 'branch' and ((obj_eq(e.atom) == 1 and not e.pol) or (obj_eq(e.atom) == -1 and e.pol)) for e in evs)
            for e in evs:
                if e.kind != 'return' or e.val is None:
                    continue
                npaths += 1
                val = e.val
                while val[0] in ('cast', 'conv'):
                    val = val[2]
                if val == ('bool', True) or (val[0] == 'int' and val[1] == 1):
                    continue
                if differ:
                    continue
                # a value that may be false although the objects are the same: only the equality itself (or a disjunction containing it) is accepted
                disj = [val]
                okv = False
                while disj:
                    d = disj.pop()
                    if d[0] == 'bin' and d[1] == '||':
                        disj += [d[2], d[3]]
                    elif obj_eq(d) == 1:
                        okv = True
                    elif d[0] == 'call' and d[1].endswith('::depends'):
                        okv = True          # delegated to the virtual depends() of the transition (checked through R4 as symmetric)
                if not okv:
                    problems.append('line %s returns %s on a path that has not established that the two objects differ' % (e.line, ex.pretty(val)[:90]))
        n5 += 1
        ctx.check(npaths >= 1 and not problems, 'R5', '%s x %s -> %s: independent only for different objects' % (nm, nm, aname.get(a, a)), where(dd), '; '.join(problems[:2]) +
                  (': both requests join the waiting queue of the same object, so their order decides who is served first' if problems else ''), key='R5|%s|same queue' % nm)
    ctx.require(n5 >= 4, 'R5', 'only %d queueing transition types found' % n5)

    # ---- R6 the conditional cases, read as boolean functions of their comparisons ------------------------------------------------------------------------
    ctx.rule('R6', 'each conditional case: every comparison relates an attribute of t1 to an attribute of the same kind of t2; the answer can only go from independent to dependent when two '
             'compared objects become the same one, or when a timeout is present; a consulted timeout is by itself a reason for dependence', 15)
    ACTOR = {'aid', 'target', 'child', 'sender', 'receiver', 'issuer'}
    KIND_ALIAS = {'mbox': 'mailbox', 'cond': 'condvar', 'cv': 'condvar', 'semaphore': 'sem', 'communication': 'comm', 'bar': 'barrier'}

    def strip(t):
        while isinstance(t, tuple) and t and ((t[0] in ('cast', 'conv') and len(t) >= 3 and not (t[2] in (T1, T2))) or t[0] == 'truthy'):
            t = t[1] if t[0] == 'truthy' else t[2]
        return t

    def kind_of(t):
        """what an id-valued term designates: the last getter or member on the chain"""
        t = strip(t)
        nm = None
        if t[0] == 'call' and isinstance(t[1], str):
            nm = t[1].rsplit('::', 1)[-1]
        elif t[0] == 'field':
            nm = t[2].rsplit('::', 1)[-1]
        if nm is None:
            return None
        nm = nm.strip('_')
        if nm.startswith('get_'):
            nm = nm[4:]
        nm = nm[:-3] if nm.endswith('_id') else nm
        return 'actor' if nm in ACTOR else KIND_ALIAS.get(nm, nm)

    def roots(t):
        return set(x for x in ex.subterms(t) if x in (T1, T2))

    def leaves(t, out):
        """atoms of a boolean term: (key, is_eq)"""
        t = strip(t)
        if t[0] == 'bin' and t[1] in ('||', '&&'):
            leaves(t[2], out)
            leaves(t[3], out)
            return
        if t[0] in ('bool', 'int'):
            return
        a, _ = ex.atom(t)
        a = canon(subst(subst(a, lmap), lmap))
        out.add(a)

    def ev(t, asg):
        t = strip(t)
        if t[0] == 'bool':
            return bool(t[1])
        if t[0] == 'int':
            return t[1] != 0
        if t[0] == 'bin' and t[1] == '||':
            return ev(t[2], asg) or ev(t[3], asg)
        if t[0] == 'bin' and t[1] == '&&':
            return ev(t[2], asg) and ev(t[3], asg)
        a, p0 = ex.atom(t)
        a = canon(subst(subst(a, lmap), lmap))
        return asg[a] == p0
    n6 = 0
    same_object_answer = {}   # action name -> answer when every compared object (not actor) is the same one and no timeout is set
    for av, info in sorted(case_info.items()):
        nm = str(aname.get(av, av))
        if info['panic'] or info.get('virt') or not nm.startswith('EVAL_'):
            continue
        sbs = [sb for (sw_, succs) in v.case_blocks() for lab, sb in succs if lab and lab.get('k') == 'case' and lab['v'] == av and sb is not None]
        pths = []
        atoms = set()
        for p in v.paths(start=sbs[0]):
            if p.exit in ('noreturn', 'cut', 'throw'):
                continue
            evs = v.path_events(p)
            conds = []
            for e in evs:
                if e.kind == 'branch':
                    conds.append((e.atom, e.pol))
                    leaves(e.atom, atoms)
            rets = [e for e in evs if e.kind == 'return' and e.val is not None]
            if not rets:
                continue
            leaves(rets[-1].val, atoms)
            pths.append((conds, rets[-1]))
        atoms = sorted(atoms, key=repr)
        if not atoms or any(x[0] == 'call' and isinstance(x[1], str) and x[1].endswith('::depends') for a in atoms for x in ex.subterms(a)):
            continue      # a constant answer, or one delegated to the class (R4 decides its symmetry)
        if len(atoms) > 10:
            ctx.unrecognised('R6', '%s: %d comparisons, too many to enumerate' % (nm, len(atoms)))
            continue
        n6 += 1
        # kinds and sides
        bad = []
        up = []        # atoms in which the answer must be monotone
        touts = []
        for a in atoms:
            if a[0] == 'bin' and a[1] == '==':
                ka, kb = kind_of(a[2]), kind_of(a[3])
                ra, rb = roots(a[2]), roots(a[3])
                if ka is None or kb is None or not ra or not rb:
                    ctx.unrecognised('R6', '%s: comparison %s not understood' % (nm, ex.pretty(a)))
                    continue
                if ka != kb:
                    bad.append('%s compares a %s with a %s: the two identifiers come from different counters' % (ex.pretty(a)[:110], ka, kb))
                elif ra == rb:
                    bad.append('%s compares a transition with itself' % ex.pretty(a)[:110])
                up.append(a)
            elif a[0] == 'truthy' and kind_of(a[1]) == 'timeout':
                up.append(a)
                touts.append(a)
            else:
                ctx.unrecognised('R6', '%s: test %s not understood' % (nm, ex.pretty(a)))
        ctx.check(not bad, 'R6', '%s: comparisons relate like attributes of t1 and t2' % nm, where(dd, pths[0][1].line if pths else None), '; '.join(bad) or '%d comparison(s)' % len(atoms), key='R6|%s|kinds' % nm)
        # the boolean function
        table = {}
        amb = False
        for bits in range(1 << len(atoms)):
            asg = {a: bool(bits >> k & 1) for k, a in enumerate(atoms)}
            res = set()
            for conds, r in pths:
                if all(ev(a, asg) == pol for a, pol in conds):
                    res.add(ev(r.val, asg))
            if len(res) != 1:
                amb = amb or len(res) > 1
                continue
            table[bits] = res.pop()
        if amb:
            ctx.unrecognised('R6', '%s: two paths give different answers under the same comparisons' % nm)
            continue
        eqbits = sum(1 << k for k, a in enumerate(atoms) if a[0] == 'bin' and a[1] == '==' and kind_of(a[2]) != 'actor')
        same_object_answer[nm] = table.get(eqbits)
        bad = []
        for k, a in enumerate(atoms):
            if a not in up:
                continue
            for bits, r in table.items():
                if not bits >> k & 1 and r and table.get(bits | 1 << k) is False:
                    bad.append('with %s the pair is declared independent, without it dependent' % (ex.pretty(a)[:110] + (' true' if a in touts else '')))
                    break
            if a in touts and any(bits >> k & 1 and not r for bits, r in table.items()):
                bad.append('%s is consulted but does not suffice for dependence (the other cases treat a timeout as dependent: it is outside the independence theorem)' % ex.pretty(a)[:110])
        ctx.check(not bad, 'R6', '%s: identical objects or a timeout never turn a dependent pair into an independent one' % nm, where(dd, pths[0][1].line if pths else None),
                  '; '.join(bad[:3]) or 'monotone over %d assignment(s) of %d comparison(s)' % (len(table), len(atoms)), key='R6|%s|monotone' % nm)
    ctx.require(n6 >= 15, 'R6', 'only %d conditional cases recognised' % n6)

    # ---- R7 pairs that conflict by the semantics of the object: never unconditionally independent, and dependent on one object ------------------------------------
    ctx.rule('R7', 'pairs whose outcome depends on their order when they name the same object (frozen list, one reason each) are not ALWAYS_INDEP, and their case answers '
             '"dependent" when every compared object is the same one', len(MUST_CONFLICT))
    for (x, y), why in sorted(MUST_CONFLICT.items()):
        if x not in types or y not in types:
            raise AnalysisBroken('transition type %s or %s not found' % (x, y))
        i, j = sorted((types[x], types[y]))
        a = rows[i][j]
        an = str(aname.get(a, a))
        ok = an != 'ALWAYS_INDEP'
        detail = 'action %s' % an
        if ok and an in same_object_answer:
            ok = same_object_answer[an] is True
            detail += '; on one object it answers %s' % ('dependent' if same_object_answer[an] else 'independent')
        ctx.check(ok, 'R7', '%s x %s is not unconditionally independent' % (x, y), where(dd), detail + ' (%s)' % why, key='R7|%s x %s|must conflict' % (x, y))
    return EXPLANATION
