"""Check context: verdict bookkeeping, known findings, evidence and report files, exit codes (DESIGN.md 1.2, 2.4)."""
import json
import os
import sys
import time

from . import cfg, ir
from .ir import AnalysisBroken, VERIF, REPO


class Ctx:
    def __init__(self, pid, tier='quick', seed=0):
        self.pid = pid
        self.tier = tier
        self.seed = seed
        self.t0 = time.time()
        self.results = []        # dicts: rule, instance, verdict, where, detail, key
        self.unrec = []          # analysis-broken messages
        self.units = []
        self.prog = None
        self.analyzer = None
        self.stats = {'units': 0, 'functions': 0, 'paths': 0, 'call_sites': 0}
        self.assumptions = []
        self.notes = []
        self.min_instances = {}  # rule -> minimum number of decided instances confirmed by hand
        self.rule_text = {}

    # -- program ------------------------------------------------------------------------------------------------
    def load(self, rel_units, extra=()):
        units = [u if u.startswith('/') else os.path.join(REPO, u) for u in rel_units]
        units += [u for u in extra if u not in units]
        missing = [u for u in units if not os.path.exists(u)]
        if missing:
            raise AnalysisBroken('anchor unit(s) vanished: ' + ', '.join(missing))
        excl = [u for u in units if u in EXCLUDED_UNITS]
        units = [u for u in units if u not in EXCLUDED_UNITS]
        for u in excl:
            self.notes.append('unit not analysed (%s): %s' % (EXCLUDED_UNITS[u], u))
        self.prog = ir.load_units(units, verbose=bool(os.environ.get('SG_VERBOSE')))
        self.units = units
        self.analyzer = cfg.Analyzer(self.prog)
        self.stats['units'] = len(units)
        self.stats['functions'] = len(self.prog.fns)
        return self.prog

    def all_units(self):
        return [u for u in ir.all_units()]

    # -- verdicts -----------------------------------------------------------------------------------------------
    def rule(self, rule, text, min_instances=1):
        self.rule_text[rule] = text
        self.min_instances[rule] = min_instances

    def holds(self, rule, instance, where='', detail=''):
        self.results.append({'rule': rule, 'instance': instance, 'verdict': 'HOLDS', 'where': where, 'detail': detail})

    def violation(self, rule, instance, where, detail, key=None):
        self.results.append({'rule': rule, 'instance': instance, 'verdict': 'VIOLATION', 'where': where,
                             'detail': detail, 'key': key or '%s|%s' % (rule, instance)})

    def unrecognised(self, rule, msg):
        self.unrec.append('%s: %s' % (rule, msg))

    def check(self, cond, rule, instance, where='', detail='', key=None):
        if cond:
            self.holds(rule, instance, where, detail)
        else:
            self.violation(rule, instance, where, detail, key)
        return cond

    def require(self, cond, rule, msg):
        """anchor/idiom requirement: failing it is 'analysis broken', never a violation"""
        if not cond:
            self.unrecognised(rule, msg)
        return cond

    def assume(self, text):
        if text not in self.assumptions:
            self.assumptions.append(text)

    def count(self, what, n=1):
        self.stats[what] = self.stats.get(what, 0) + n


EXCLUDED_UNITS = {
    REPO + '/src/mc/smemory/runtime/smemory_memorymaps.cpp':
        'clang 14 lacks C++20 parenthesised aggregate initialisation used by this unit (g++ only)',
}


def where(fn, line=None):
    f = fn['file']
    if f.startswith(REPO + '/'):
        f = f[len(REPO) + 1:]
    return '%s:%s' % (f, line if line is not None else fn['line'])


def load_known():
    p = os.path.join(VERIF, 'known_findings.json')
    if not os.path.exists(p):
        return {'known': [], 'fixed': []}
    return json.load(open(p))


def finish(ctx, explanation, level='other', write=True, quiet=False):
    """print verdict lines, write evidence and reports, return the exit code"""
    pid = ctx.pid
    known = {k['key']: k for k in load_known().get('known', []) if k.get('property') == pid}
    # anti-vacuity: every declared rule needs its minimum number of decided instances
    per_rule = {}
    for r in ctx.results:
        per_rule.setdefault(r['rule'], []).append(r)
    for rule, mn in ctx.min_instances.items():
        n = len(per_rule.get(rule, []))
        if n < mn:
            ctx.unrecognised(rule, 'only %d instance(s) decided, %d confirmed by hand on the reference tree' % (n, mn))
    viol = [r for r in ctx.results if r['verdict'] == 'VIOLATION']
    new = [r for r in viol if r['key'] not in known]
    old = [r for r in viol if r['key'] in known]
    ctx.new_violations = new
    ctx.known_reported = old
    if not write:
        return 1 if new else (2 if ctx.unrec else 0)
    rep_dir = os.path.join(VERIF, 'reports', pid)
    os.makedirs(rep_dir, exist_ok=True)
    for old_report in os.listdir(rep_dir):      # reports of an earlier run are not this run's
        if old_report.startswith('violation_') and old_report.endswith('.json'):
            os.remove(os.path.join(rep_dir, old_report))
    for r in old:
        print('KNOWN-FINDING: property=%s %s [%s at %s]' % (pid, known[r['key']].get('what', r['detail']), r['rule'], r['where']))
    seen = set()
    nrep = 0
    for r in new:
        if r['key'] in seen:
            continue
        seen.add(r['key'])
        nrep += 1
        path = os.path.join(rep_dir, 'violation_%d.json' % nrep)
        with open(path, 'w') as f:
            json.dump({'property': pid, 'tier': ctx.tier, **r}, f, indent=1)
        print('VIOLATION property=%s replay=%s' % (pid, path))
        print('  rule %s (%s)\n  instance: %s\n  at %s\n  %s' % (r['rule'], ctx.rule_text.get(r['rule'], ''), r['instance'], r['where'], r['detail']))
    for m in ctx.unrec:
        print('UNRECOGNISED property=%s %s' % (pid, m))
    decided = len(ctx.results)
    rules_hit = len([k for k, v in per_rule.items() if v])
    samples = []
    for rule, rs in sorted(per_rule.items()):
        for r in rs[:2]:
            samples.append({'rule': rule, 'instance': r['instance'], 'verdict': r['verdict'], 'where': r['where'],
                            'detail': r['detail'][:300]})
    samples = samples[:40]
    ev = {
        'property_id': pid,
        'tier': ctx.tier,
        'seed': ctx.seed,
        'level': level,
        'coverage': {
            'explanation': explanation,
            'evaluations': decided,
            'distinct_nontrivial': len(set((r['rule'], r['instance']) for r in ctx.results)),
            'rule': 'one evaluation = one rule instance (function / call site / path / table cell) found in /repo\'s '
                    'current source and decided; distinct = distinct (rule, instance) pairs; all are non-trivial in '
                    'the sense that each is a construct of the anchored code the rule had to recognise',
            'samples': samples or [{'note': 'no instance decided'}],
            'rules': {k: {'text': ctx.rule_text.get(k, ''), 'instances': len(v),
                          'violations': len([x for x in v if x['verdict'] == 'VIOLATION']),
                          'min_instances': ctx.min_instances.get(k, 0)} for k, v in sorted(per_rule.items())},
            'distinct_rules': rules_hit,
            'units': [u[len(REPO) + 1:] if u.startswith(REPO) else u for u in ctx.units][:400],
            'n_units': ctx.stats.get('units', 0),
            'functions_loaded': ctx.stats.get('functions', 0),
            'paths': ctx.stats.get('paths', 0),
            'call_sites': ctx.stats.get('call_sites', 0),
            'obligations': decided,
            'discharged': decided - len(viol),
            'known_findings_reported': len(old),
            'unrecognised': ctx.unrec,
            'notes': ctx.notes,
        },
        'assumptions': ctx.assumptions + [
            'clang 14 parser, type checker, CFG builder and constant evaluator; compile flags of the real build',
            'paths are enumerated on the CFG with every block visited at most twice; log-macro branches elided',
        ],
        'wall_s': round(time.time() - ctx.t0, 2),
        'violations': len(new),
    }
    os.makedirs(os.path.join(VERIF, 'evidence'), exist_ok=True)
    with open(os.path.join(VERIF, 'evidence', pid + '.json'), 'w') as f:
        json.dump(ev, f, indent=1)
    print('%s: %d instance(s) of %d rule(s) decided over %d unit(s) / %d function(s); %d violation(s), %d known finding(s), '
          '%d unrecognised' % (pid, decided, rules_hit, ctx.stats.get('units', 0), ctx.stats.get('functions', 0), len(new),
                               len(old), len(ctx.unrec)))
    if new:
        return 1
    if ctx.unrec:
        return 2
    return 0
