"""Variants of the anchored code analysed through a clang VFS overlay (/repo is never modified): the self-test substitutions of
selftest/<id>/*.json and the kept seeded changes of seeded/*/patch.diff (DESIGN.md 2.6, 8).  Used by tools/selftest.py and by the thorough tier."""
import glob
import importlib
import json
import os
import re
import shutil
import subprocess
import tempfile

from . import core, ir

V = os.path.dirname(os.path.dirname(os.path.abspath(__file__)))


def analyse_overlay(pid, mapping):
    """run the check of pid with the files of `mapping` {repo path: replacement} overlaid; returns (rc, violation keys, unrecognised, violations)"""
    ir.set_overlay(mapping)
    try:
        mod = importlib.import_module('sgcheck.props.' + pid)
        ctx = core.Ctx(pid, 'quick', 0)
        try:
            mod.run(ctx)
        except ir.AnalysisBroken as e:
            ctx.unrecognised('analysis', str(e))
        rc = core.finish(ctx, '', write=False)
        return rc, sorted(set(r['key'] for r in ctx.new_violations)), ctx.unrec, ctx.new_violations
    finally:
        ir.set_overlay({})


def substitution_overlay(spec, tmpdir):
    """overlay of a selftest spec, or a string saying why it does not apply to the current source"""
    mapping = {}
    for i, ed in enumerate(spec['edits']):
        path = os.path.join(ir.REPO, ed['file'])
        src = mapping.get(path, path)
        if not os.path.exists(src):
            return 'file %s is gone' % ed['file']
        txt = open(src).read()
        for old, new in ed['subst']:
            if txt.count(old) != 1:
                return 'substitution source occurs %d times in %s: %r' % (txt.count(old), ed['file'], old[:60])
            txt = txt.replace(old, new)
        dst = os.path.join(tmpdir, '%d_%s' % (i, os.path.basename(path)))
        open(dst, 'w').write(txt)
        mapping[path] = dst
    return mapping


def patch_overlay(patch, tmpdir):
    """overlay of a unified diff against /repo (applied to copies of the files it touches), or a string saying why it does not apply"""
    files = re.findall(r'^\+\+\+ b/(\S+)', open(patch).read(), flags=re.M)
    mapping = {}
    for f in files:
        src = os.path.join(ir.REPO, f)
        if not os.path.exists(src):
            return 'file %s is gone' % f
        dst = os.path.join(tmpdir, 'w', f)
        os.makedirs(os.path.dirname(dst), exist_ok=True)
        shutil.copy(src, dst)
        mapping[src] = dst
    r = subprocess.run(['patch', '-p1', '-s', '-f', '--no-backup-if-mismatch', '-d', os.path.join(tmpdir, 'w'), '-i', os.path.abspath(patch)], capture_output=True, text=True)
    if r.returncode != 0:
        return 'the patch no longer applies to the current source (%s)' % (r.stdout + r.stderr).strip().splitlines()[0:1]
    return mapping


def variants_of(pid):
    """(name, kind, expected key, builder) for every variant that concerns pid"""
    out = []
    for f in sorted(glob.glob(os.path.join(V, 'selftest', pid, '*.json'))):
        spec = json.load(open(f))
        out.append(('selftest/%s/%s' % (pid, os.path.basename(f)[:-5]), spec.get('kind', 'mutant'), spec.get('expect_key', ''), lambda t, s=spec: substitution_overlay(s, t)))
    for mp in sorted(glob.glob(os.path.join(V, 'seeded', '*', 'meta.json'))):
        meta = json.load(open(mp))
        caught = re.findall(r'\bC\d\d\b', meta.get('caught_by', ''))
        if meta.get('caught_by', '').lower().startswith('not caught') or pid not in caught:
            continue
        pd = os.path.join(os.path.dirname(mp), 'patch.diff')
        out.append(('seeded/%s' % os.path.basename(os.path.dirname(mp)), 'mutant', '', lambda t, p=pd: patch_overlay(p, t)))
    return out


def run_all(pid, verbose=False):
    """returns (lines, n_ok, failures, not_applicable)"""
    lines, ok, fails, na = [], 0, [], []
    for name, kind, exp, build in variants_of(pid):
        tmpdir = tempfile.mkdtemp(prefix='sgvariant_')
        try:
            mapping = build(tmpdir)
            if isinstance(mapping, str):
                na.append('%s: %s' % (name, mapping))
                lines.append('N/A     %s: %s' % (name, mapping))
                continue
            rc, keys, unrec, viol = analyse_overlay(pid, mapping)
        finally:
            shutil.rmtree(tmpdir, ignore_errors=True)
        if verbose:
            for r in viol:
                lines.append('    %s | %s | %s' % (r['key'], r['where'], r['detail'][:400]))
        if kind == 'mutant':
            good = rc == 1 and any(exp in k for k in keys)
            lines.append('%s  %s (mutant): rc=%s keys=%s%s' % ('ok    ' if good else 'MISSED', name, rc, keys[:4], '' if good else ' expected key containing %r; unrecognised=%s' % (exp, unrec[:2])))
        else:
            good = rc == 0
            lines.append('%s  %s (%s): rc=%s keys=%s unrec=%s' % ('ok    ' if good else 'ALARM ', name, kind, rc, keys[:4], unrec[:2]))
        if good:
            ok += 1
        else:
            fails.append(name)
    return lines, ok, fails, na
