#!/bin/sh
# Build the extractor and warm the IR cache (offline; nothing is fetched).
set -e
cd "$(dirname "$0")"
python3 - <<'PY'
import sys
sys.path.insert(0, '.')
from sgcheck import ir
ir.ensure_sgx()
units = [u for u in ir.all_units()]
from sgcheck.core import EXCLUDED_UNITS
units = [u for u in units if u not in EXCLUDED_UNITS]
n = ir.refresh(units, verbose=True)
print('setup: sgx built, %d unit(s) extracted, %d total' % (n, len(units)))
PY
